package main

// Exhaustive abbreviation sweep (C01, C09, C18): EVERY string of 1..3 ASCII letters that is not a
// metric abbreviation of the version (the legal set comes from the specification, spec/Metrics.tla)
// is offered to Get, to Set (with several values, the empty one included) and to ParseVector
// (replacing the abbreviation of each element of a full vector, and inserted as an extra element).
// An unknown abbreviation is never accepted; Get/Set answer *ErrInvalidMetric naming it; an extra
// unknown element is the documented single defect (v3: *ErrInvalidMetric{abv}; v2/v4: order).

import (
	"encoding/json"
	"runtime"
	"strings"
	"sync"
)

const letters = "ABCDEFGHIJKLMNOPQRSTUVWXYZabcdefghijklmnopqrstuvwxyz"

func allAbvs(fn func(string)) {
	b := make([]byte, 3)
	for i := 0; i < len(letters); i++ {
		b[0] = letters[i]
		fn(string(b[:1]))
		for j := 0; j < len(letters); j++ {
			b[1] = letters[j]
			fn(string(b[:2]))
			for k := 0; k < len(letters); k++ {
				b[2] = letters[k]
				fn(string(b[:3]))
			}
		}
	}
}

func runAbvSweep(a *args) {
	prop := a.Prop
	col := newCollector("abvsweep", prop)
	var tabs specTables
	if err := json.Unmarshal([]byte(a.Aux), &tabs); err != nil {
		fatal("abvsweep: -aux must carry the spec tables: %v", err)
	}
	var abvs []string
	allAbvs(func(s string) { abvs = append(abvs, s) })
	var mu sync.Mutex
	counts := map[string]int64{}
	for _, vn := range verOrder {
		v := versions[vn]
		ord, vals := tabs.Order[vn], tabs.Values[vn]
		legal := map[string]bool{}
		for _, m := range ord {
			legal[m] = true
		}
		// a full vector: every metric written with its second listed value (first for 2-valued ones)
		elems := make([]string, len(ord))
		for i, m := range ord {
			vs := vals[m]
			x := vs[0]
			if len(vs) > 1 && (vs[0] == "X" || vn == "2.0") {
				x = vs[1]
				if x == "ND" {
					x = vs[0]
				}
			}
			elems[i] = m + ":" + x
		}
		hdr := map[string]string{"2.0": "", "3.0": "CVSS:3.0/", "3.1": "CVSS:3.1/", "4.0": "CVSS:4.0/"}[vn]
		join := func(es []string) string { return hdr + strings.Join(es, "/") }
		if _, err := v.Parse(join(elems)); err != nil {
			col.count("skipped "+vn+": the full vector is not parsed (C01)", 1)
			continue
		}
		work := make(chan []string, 64)
		var wg sync.WaitGroup
		for w := 0; w < runtime.GOMAXPROCS(0); w++ {
			wg.Add(1)
			go func() {
				defer wg.Done()
				lc := map[string]int64{}
				es := make([]string, len(elems)+1)
				for chunk := range work {
					for _, ab := range chunk {
						if legal[ab] {
							continue
						}
						wantErr := ErrK{"metric", ab}
						o := v.Zero()
						if prop == "C09" || prop == "C18" {
							got, err := o.Get(ab)
							lc["Get(unknown abbreviation)"]++
							if err == nil {
								col.violate(Violation{Property: prop, Kind: "Get accepts an abbreviation that is not a metric of the version", Version: vn, Input: ab, Expected: wantErr, Observed: map[string]string{"value": got}})
							} else if k := v.ErrKind(err); prop == "C18" && k != wantErr {
								col.violate(Violation{Property: prop, Kind: "Get: error value differs from the documented one", Version: vn, Input: ab, Expected: wantErr, Observed: k})
							}
							for _, val := range []string{"", "N", "H", "X", "L"} {
								before := o.Clone()
								err := o.Set(ab, val)
								lc["Set(unknown abbreviation, value)"]++
								if err == nil {
									col.violate(Violation{Property: prop, Kind: "Set accepts an abbreviation that is not a metric of the version", Version: vn, Input: map[string]string{"abv": ab, "value": val}, Expected: wantErr, Observed: ErrK{"none", ""}})
								} else if k := v.ErrKind(err); prop == "C18" && k != wantErr {
									col.violate(Violation{Property: prop, Kind: "Set: error value differs from the documented one", Version: vn, Input: map[string]string{"abv": ab, "value": val}, Expected: wantErr, Observed: k})
								}
								if prop == "C09" && !before.Same(o) {
									col.violate(Violation{Property: prop, Kind: "refused Set changed the object", Version: vn, Input: map[string]string{"abv": ab, "value": val}, Expected: "unchanged", Observed: "changed"})
									o = v.Zero()
								}
							}
						}
						if prop == "C01" {
							// the abbreviation of each element replaced by the unknown one: never well formed
							for i := range elems {
								copy(es, elems)
								_, val, _ := strings.Cut(elems[i], ":")
								es[i] = ab + ":" + val
								s := join(es[:len(elems)])
								p, err := v.Parse(s)
								lc["ParseVector(vector with one abbreviation replaced)"]++
								if err == nil || p != nil {
									col.violate(Violation{Property: prop, Kind: "accept/reject differs from the grammar", Version: vn, Input: inputRec([]byte(s)),
										Expected: map[string]interface{}{"well_formed": false}, Observed: map[string]interface{}{"accepted": err == nil}})
								}
							}
						}
						if prop == "C01" || prop == "C18" {
							// an extra unknown element inserted: first, in the middle, last
							for _, pos := range []int{0, len(elems) / 2, len(elems)} {
								copy(es, elems[:pos])
								es[pos] = ab + ":N"
								copy(es[pos+1:], elems[pos:])
								s := join(es)
								_, err := v.Parse(s)
								lc["ParseVector(vector with an extra unknown element)"]++
								if err == nil {
									col.violate(Violation{Property: prop, Kind: "accept/reject differs from the grammar", Version: vn, Input: inputRec([]byte(s)),
										Expected: map[string]interface{}{"well_formed": false}, Observed: map[string]interface{}{"accepted": true}})
									continue
								}
								if prop == "C18" {
									want := ErrK{"order", ""}
									if vn == "3.0" || vn == "3.1" {
										want = wantErr
									}
									known := vn == "2.0" && pos == len(elems) // after a complete environmental group: known finding
									if k := v.ErrKind(err); k != want {
										col.violate(Violation{Property: prop, Kind: "error value differs from the documented one", Version: vn, Input: inputRec([]byte(s)),
											Expected: want, Observed: k, Extra: map[string]interface{}{"defect": "insert", "after_complete_v2_environmental_group": known}})
									}
								}
							}
						}
					}
				}
				mu.Lock()
				for k, n := range lc {
					counts[vn+" "+k] += n
				}
				mu.Unlock()
			}()
		}
		for i := 0; i < len(abvs); i += 512 {
			j := i + 512
			if j > len(abvs) {
				j = len(abvs)
			}
			work <- abvs[i:j]
		}
		close(work)
		wg.Wait()
	}
	var total int64
	for k, n := range counts {
		col.s.Compared[k] = n
		total += n
	}
	col.s.Evaluations = total
	col.s.Distinct = int64(len(abvs)) * 4
	col.s.Nontrivial = col.s.Distinct
	col.sample(map[string]interface{}{"abbreviations": []string{abvs[0], abvs[1000], abvs[len(abvs)-1]}, "count": len(abvs)})
	col.write(a.Out)
}

func init() { modes["abvsweep"] = runAbvSweep }
