package main

// Version adapters: everything the harness does goes through the exported API
// of the four packages (ParseVector, Get, Set, Vector, the scoring methods,
// Rating, Nomenclature and the exported error values/types). Nothing here
// depends on bit layout, unexported names or error message text.

import (
	"errors"
	"fmt"
	"runtime"

	gocvss20 "github.com/pandatix/go-cvss/20"
	gocvss30 "github.com/pandatix/go-cvss/30"
	gocvss31 "github.com/pandatix/go-cvss/31"
	gocvss40 "github.com/pandatix/go-cvss/40"
)

type Obj interface {
	Get(abv string) (string, error)
	Set(abv, val string) error
	Vector() string
	Clone() Obj
	Same(o Obj) bool // Go == on the underlying struct values
	Score(name string) float64
	Nomenclature() string
}

type Ver struct {
	Name    string
	Metrics []string // specification order (only used to project objects; taken from the spec side)
	Scores  []string
	Parse   func(string) (Obj, error)
	Zero    func() Obj
	Rating  func(float64) (string, error) // nil for 2.0
	// ParseRaw calls ParseVector without wrapping the result (allocation measurements)
	ParseRaw func(string) error
	ErrKind  func(error) ErrK
}

// ErrK is the spec-level classification of an error value.
type ErrK struct {
	Kind string `json:"kind"` // none header order short value metric missing definedN bounds other
	Abv  string `json:"abv"`
}

func (e ErrK) String() string { return fmt.Sprintf("%s{%q}", e.Kind, e.Abv) }

// ---- 2.0 ----
type o20 struct{ v *gocvss20.CVSS20 } // the very pointer ParseVector returned (aliasing must stay visible)

func (o *o20) Get(a string) (string, error) { return o.v.Get(a) }
func (o *o20) Set(a, v string) error        { return o.v.Set(a, v) }
func (o *o20) Vector() string               { return o.v.Vector() }
func (o *o20) Clone() Obj                   { c := *o.v; return &o20{&c} }
func (o *o20) Same(p Obj) bool              { q, ok := p.(*o20); return ok && *q.v == *o.v }
func (o *o20) Nomenclature() string         { return "" }
func (o *o20) Score(n string) float64 {
	switch n {
	case "base":
		return o.v.BaseScore()
	case "temporal":
		return o.v.TemporalScore()
	case "environmental":
		return o.v.EnvironmentalScore()
	case "impact":
		return o.v.Impact()
	case "exploitability":
		return o.v.Exploitability()
	}
	panic("unknown score " + n)
}

// ---- 3.0 ----
type o30 struct{ v *gocvss30.CVSS30 } // the very pointer ParseVector returned (aliasing must stay visible)

func (o *o30) Get(a string) (string, error) { return o.v.Get(a) }
func (o *o30) Set(a, v string) error        { return o.v.Set(a, v) }
func (o *o30) Vector() string               { return o.v.Vector() }
func (o *o30) Clone() Obj                   { c := *o.v; return &o30{&c} }
func (o *o30) Same(p Obj) bool              { q, ok := p.(*o30); return ok && *q.v == *o.v }
func (o *o30) Nomenclature() string         { return "" }
func (o *o30) Score(n string) float64 {
	switch n {
	case "base":
		return o.v.BaseScore()
	case "temporal":
		return o.v.TemporalScore()
	case "environmental":
		return o.v.EnvironmentalScore()
	case "impact":
		return o.v.Impact()
	case "exploitability":
		return o.v.Exploitability()
	}
	panic("unknown score " + n)
}

// ---- 3.1 ----
type o31 struct{ v *gocvss31.CVSS31 } // the very pointer ParseVector returned (aliasing must stay visible)

func (o *o31) Get(a string) (string, error) { return o.v.Get(a) }
func (o *o31) Set(a, v string) error        { return o.v.Set(a, v) }
func (o *o31) Vector() string               { return o.v.Vector() }
func (o *o31) Clone() Obj                   { c := *o.v; return &o31{&c} }
func (o *o31) Same(p Obj) bool              { q, ok := p.(*o31); return ok && *q.v == *o.v }
func (o *o31) Nomenclature() string         { return "" }
func (o *o31) Score(n string) float64 {
	switch n {
	case "base":
		return o.v.BaseScore()
	case "temporal":
		return o.v.TemporalScore()
	case "environmental":
		return o.v.EnvironmentalScore()
	case "impact":
		return o.v.Impact()
	case "exploitability":
		return o.v.Exploitability()
	}
	panic("unknown score " + n)
}

// ---- 4.0 ----
type o40 struct{ v *gocvss40.CVSS40 } // the very pointer ParseVector returned (aliasing must stay visible)

func (o *o40) Get(a string) (string, error) { return o.v.Get(a) }
func (o *o40) Set(a, v string) error        { return o.v.Set(a, v) }
func (o *o40) Vector() string               { return o.v.Vector() }
func (o *o40) Clone() Obj                   { c := *o.v; return &o40{&c} }
func (o *o40) Same(p Obj) bool              { q, ok := p.(*o40); return ok && *q.v == *o.v }
func (o *o40) Nomenclature() string         { return o.v.Nomenclature() }
func (o *o40) Score(n string) float64 {
	switch n {
	case "score":
		return o.v.Score()
	}
	panic("unknown score " + n)
}

func isNilObj(p interface{}) bool { return p == nil }

var versions = map[string]*Ver{
	"2.0": {
		Name:   "2.0",
		Scores: []string{"base", "temporal", "environmental"},
		Parse: func(s string) (Obj, error) {
			p, err := gocvss20.ParseVector(s)
			if p == nil {
				return nil, err
			}
			return &o20{p}, err
		},
		Zero:     func() Obj { return &o20{new(gocvss20.CVSS20)} },
		ParseRaw: func(s string) error { p, err := gocvss20.ParseVector(s); rawSink20 = p; return err },
		ErrKind: func(err error) ErrK {
			if err == nil {
				return ErrK{"none", ""}
			}
			var im *gocvss20.ErrInvalidMetric
			var imv gocvss20.ErrInvalidMetric
			switch {
			case errors.As(err, &im) && im != nil:
				return ErrK{"metric", im.Abv}
			case errors.As(err, &imv):
				return ErrK{"metric", imv.Abv}
			case errors.Is(err, gocvss20.ErrTooShortVector):
				return ErrK{"short", ""}
			case errors.Is(err, gocvss20.ErrInvalidMetricOrder):
				return ErrK{"order", ""}
			case errors.Is(err, gocvss20.ErrInvalidMetricValue):
				return ErrK{"value", ""}
			}
			return ErrK{"other", err.Error()}
		},
	},
	"3.0": {
		Name:   "3.0",
		Scores: []string{"base", "temporal", "environmental"},
		Parse: func(s string) (Obj, error) {
			p, err := gocvss30.ParseVector(s)
			if p == nil {
				return nil, err
			}
			return &o30{p}, err
		},
		Zero:     func() Obj { return &o30{new(gocvss30.CVSS30)} },
		ParseRaw: func(s string) error { p, err := gocvss30.ParseVector(s); rawSink30 = p; return err },
		Rating:   gocvss30.Rating,
		ErrKind: func(err error) ErrK {
			if err == nil {
				return ErrK{"none", ""}
			}
			var im *gocvss30.ErrInvalidMetric
			var imv gocvss30.ErrInvalidMetric
			var mi *gocvss30.ErrMissing
			var miv gocvss30.ErrMissing
			var dn *gocvss30.ErrDefinedN
			var dnv gocvss30.ErrDefinedN
			switch {
			case errors.As(err, &im) && im != nil:
				return ErrK{"metric", im.Abv}
			case errors.As(err, &imv):
				return ErrK{"metric", imv.Abv}
			case errors.As(err, &mi) && mi != nil:
				return ErrK{"missing", mi.Abv}
			case errors.As(err, &miv):
				return ErrK{"missing", miv.Abv}
			case errors.As(err, &dn) && dn != nil:
				return ErrK{"definedN", dn.Abv}
			case errors.As(err, &dnv):
				return ErrK{"definedN", dnv.Abv}
			case errors.Is(err, gocvss30.ErrInvalidCVSSHeader):
				return ErrK{"header", ""}
			case errors.Is(err, gocvss30.ErrTooShortVector):
				return ErrK{"short", ""}
			case errors.Is(err, gocvss30.ErrInvalidMetricValue):
				return ErrK{"value", ""}
			case errors.Is(err, gocvss30.ErrOutOfBoundsScore):
				return ErrK{"bounds", ""}
			}
			return ErrK{"other", err.Error()}
		},
	},
	"3.1": {
		Name:   "3.1",
		Scores: []string{"base", "temporal", "environmental"},
		Parse: func(s string) (Obj, error) {
			p, err := gocvss31.ParseVector(s)
			if p == nil {
				return nil, err
			}
			return &o31{p}, err
		},
		Zero:     func() Obj { return &o31{new(gocvss31.CVSS31)} },
		ParseRaw: func(s string) error { p, err := gocvss31.ParseVector(s); rawSink31 = p; return err },
		Rating:   gocvss31.Rating,
		ErrKind: func(err error) ErrK {
			if err == nil {
				return ErrK{"none", ""}
			}
			var im *gocvss31.ErrInvalidMetric
			var imv gocvss31.ErrInvalidMetric
			var mi *gocvss31.ErrMissing
			var miv gocvss31.ErrMissing
			var dn *gocvss31.ErrDefinedN
			var dnv gocvss31.ErrDefinedN
			switch {
			case errors.As(err, &im) && im != nil:
				return ErrK{"metric", im.Abv}
			case errors.As(err, &imv):
				return ErrK{"metric", imv.Abv}
			case errors.As(err, &mi) && mi != nil:
				return ErrK{"missing", mi.Abv}
			case errors.As(err, &miv):
				return ErrK{"missing", miv.Abv}
			case errors.As(err, &dn) && dn != nil:
				return ErrK{"definedN", dn.Abv}
			case errors.As(err, &dnv):
				return ErrK{"definedN", dnv.Abv}
			case errors.Is(err, gocvss31.ErrInvalidCVSSHeader):
				return ErrK{"header", ""}
			case errors.Is(err, gocvss31.ErrTooShortVector):
				return ErrK{"short", ""}
			case errors.Is(err, gocvss31.ErrInvalidMetricValue):
				return ErrK{"value", ""}
			case errors.Is(err, gocvss31.ErrOutOfBoundsScore):
				return ErrK{"bounds", ""}
			}
			return ErrK{"other", err.Error()}
		},
	},
	"4.0": {
		Name:   "4.0",
		Scores: []string{"score"},
		Parse: func(s string) (Obj, error) {
			p, err := gocvss40.ParseVector(s)
			if p == nil {
				return nil, err
			}
			return &o40{p}, err
		},
		Zero:     func() Obj { return &o40{new(gocvss40.CVSS40)} },
		ParseRaw: func(s string) error { p, err := gocvss40.ParseVector(s); rawSink40 = p; return err },
		Rating:   gocvss40.Rating,
		ErrKind: func(err error) ErrK {
			if err == nil {
				return ErrK{"none", ""}
			}
			var im *gocvss40.ErrInvalidMetric
			var imv gocvss40.ErrInvalidMetric
			switch {
			case errors.As(err, &im) && im != nil:
				return ErrK{"metric", im.Abv}
			case errors.As(err, &imv):
				return ErrK{"metric", imv.Abv}
			case errors.Is(err, gocvss40.ErrInvalidCVSSHeader):
				return ErrK{"header", ""}
			case errors.Is(err, gocvss40.ErrTooShortVector):
				return ErrK{"short", ""}
			case errors.Is(err, gocvss40.ErrInvalidMetricOrder):
				return ErrK{"order", ""}
			case errors.Is(err, gocvss40.ErrInvalidMetricValue):
				return ErrK{"value", ""}
			case errors.Is(err, gocvss40.ErrOutOfBoundsScore):
				return ErrK{"bounds", ""}
			}
			return ErrK{"other", err.Error()}
		},
	},
}

var verOrder = []string{"2.0", "3.0", "3.1", "4.0"}

var (
	rawSink20 *gocvss20.CVSS20
	rawSink30 *gocvss30.CVSS30
	rawSink31 *gocvss31.CVSS31
	rawSink40 *gocvss40.CVSS40
)

// Every error the library returns is also RENDERED (Error() is an exported method: a message that
// sorts or rewrites shared state while being formatted changes later results - C14).
func init() {
	for _, v := range versions {
		inner := v.ErrKind
		v.ErrKind = func(err error) ErrK {
			if err != nil {
				if p, msg := safely(func() { runtime.KeepAlive(err.Error()) }); p {
					return ErrK{"other", "Error() panicked: " + msg}
				}
			}
			return inner(err)
		}
	}
}
