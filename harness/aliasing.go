package main

// C14, sequential part: results do not depend on call history; a string returned by Vector()
// never changes afterwards; a copy of an object is independent of the original.

import (
	"encoding/json"
	"fmt"
	"math/rand"
	"runtime"
	"strings"
	"unsafe"
)

// seqhist: every ordered pair and triple of the model's inputs parsed back to back by ONE goroutine;
// each result must equal the single-call result the specification gives (printed by TLC in the @P lines).
func runSeqHist(a *args) {
	prop := a.Prop
	col := newCollector("seqhist", prop)
	type exp struct {
		OK  bool
		Obj []string
	}
	want := map[string]exp{}
	var inputs []string
	readTLCLines(a.In, "@P", func(raw []byte) {
		var sc schedCase
		if err := json.Unmarshal(raw, &sc); err != nil {
			fatal("bad @P: %v", err)
		}
		for g := range sc.Inputs {
			s := string(bytesOf(sc.Inputs[g]))
			if _, ok := want[s]; !ok {
				want[s] = exp{sc.Res[g].OK, sc.Res[g].Obj}
				inputs = append(inputs, s)
			}
		}
	})
	old := runtime.GOMAXPROCS(1) // keep the goroutine on one P: the pool's private slot is reused
	defer runtime.GOMAXPROCS(old)
	v := versions["2.0"]
	ord20 := []string{"AV", "AC", "Au", "C", "I", "A", "E", "RL", "RC", "CDP", "TD", "CR", "IR", "AR"}
	check := func(hist []string) {
		for i, s := range hist {
			var o Obj
			var err error
			p, msg := safely(func() { o, err = v.Parse(s) })
			w := want[s]
			bad := p || (err == nil) != w.OK
			if !bad && w.OK {
				bad = o == nil || !eqs(project(o, ord20), w.Obj)
			}
			col.count("calls after a history compared with the single-call result", 1)
			if bad && !contextDependent20(s, outcome20(o, err, p)) {
				col.count("deviations from the specification that do not depend on the history (left to C01 / C06)", 1)
				bad = false
			}
			if bad {
				var gotObj []string
				if o != nil {
					gotObj = project(o, ord20)
				}
				col.violate(Violation{Property: prop, Kind: "result of ParseVector depends on the calls made before it", Version: "2.0",
					Input:    map[string]interface{}{"history": hist[:i], "call": s},
					Expected: map[string]interface{}{"accepted": w.OK, "object": w.Obj},
					Observed: map[string]interface{}{"error": v.ErrKind(err), "object": gotObj, "panic": msg},
					Replay:   map[string]interface{}{"mode": "seqhist1", "history": hist[:i+1], "accepted": w.OK, "object": w.Obj}})
				return
			}
		}
	}
	for _, x := range inputs {
		for _, y := range inputs {
			col.distinct(x+"\x00"+y, true)
			check([]string{x, y})
			for _, z := range inputs {
				col.distinct(x+"\x00"+y+"\x00"+z, true)
				check([]string{x, y, z})
			}
		}
	}
	col.sample(map[string]interface{}{"history": inputs[:minInt(3, len(inputs))]})
	col.s.Info["inputs"] = len(inputs)
	col.write(a.Out)
}

func minInt(a, b int) int {
	if a < b {
		return a
	}
	return b
}

func runSeqHist1(a *args) {
	col := newCollector("seqhist1", a.Prop)
	var rec struct {
		History  []string `json:"history"`
		Accepted bool     `json:"accepted"`
		Object   []string `json:"object"`
	}
	b, _ := readFile(a.In)
	if err := json.Unmarshal(b, &rec); err != nil {
		fatal("bad recipe: %v", err)
	}
	old := runtime.GOMAXPROCS(1)
	defer runtime.GOMAXPROCS(old)
	v := versions["2.0"]
	ord20 := []string{"AV", "AC", "Au", "C", "I", "A", "E", "RL", "RC", "CDP", "TD", "CR", "IR", "AR"}
	var o Obj
	var err error
	for _, s := range rec.History {
		o, err = v.Parse(s)
	}
	col.distinct(strings.Join(rec.History, "|"), true)
	bad := (err == nil) != rec.Accepted
	if !bad && rec.Accepted {
		bad = o == nil || !eqs(project(o, ord20), rec.Object)
	}
	if bad {
		col.violate(Violation{Property: a.Prop, Kind: "result of ParseVector depends on the calls made before it", Version: "2.0", Input: rec.History, Expected: rec.Accepted, Observed: v.ErrKind(err)})
	}
	col.write(a.Out)
}

// aliasing: Vector() strings stay intact, copies are independent
func runAliasing(a *args) {
	prop := a.Prop
	col := newCollector("aliasing", prop)
	var tabs specTables
	if err := json.Unmarshal([]byte(a.Aux), &tabs); err != nil {
		fatal("aliasing: -aux must carry the spec tables: %v", err)
	}
	rng := rand.New(rand.NewSource(a.Seed))
	n := a.N
	if n <= 0 {
		n = 2000
	}
	for _, vn := range verOrder {
		v := versions[vn]
		ord, vals := tabs.Order[vn], tabs.Values[vn]
		if p, msg := safely(func() { aliasingVersion(col, prop, vn, v, ord, vals, rng, n) }); p {
			col.violate(Violation{Property: prop, Kind: "a call panicked", Version: vn, Input: "Vector()/ParseVector/Set on seeded random objects", Expected: "no panic", Observed: msg})
		}
	}
	col.write(a.Out)
}

func aliasingVersion(col *collector, prop, vn string, v *Ver, ord []string, vals map[string][]string, rng *rand.Rand, n int) {
	type kept struct {
		ver   string
		s     string
		clone string
		addr  uintptr
	}
	{
		rnd := func(sparse bool) Obj {
			o := v.Zero()
			for _, m := range ord {
				vs := vals[m]
				opt := vs[0] == "X" || vs[len(vs)-1] == "ND"
				if sparse && opt {
					continue
				}
				mustSet(o, m, vs[rng.Intn(len(vs))])
			}
			return o
		}
		var ks []kept
		for i := 0; i < n; i++ {
			o := rnd(i%2 == 0)
			s := o.Vector()
			ks = append(ks, kept{vn, s, strings.Clone(s), uintptr(unsafe.Pointer(unsafe.StringData(s)))})
			// copy independence
			c := o.Clone()
			before := project(o, ord)
			m := ord[rng.Intn(len(ord))]
			mustSet(c, m, vals[m][rng.Intn(len(vals[m]))])
			col.count("copy then Set: original compared", 1)
			if !eqs(project(o, ord), before) {
				col.violate(Violation{Property: prop, Kind: "Set on a copy changed the original object", Version: vn, Input: s, Expected: before, Observed: project(o, ord)})
			}
		}
		// live strings must not share storage
		seen := map[uintptr]int{}
		for i, k := range ks {
			if j, ok := seen[k.addr]; ok && k.addr != 0 {
				col.violate(Violation{Property: prop, Kind: "two live Vector() strings share their storage", Version: vn, Input: []string{ks[j].clone, k.clone}, Expected: "distinct storage", Observed: fmt.Sprintf("%#x", k.addr)})
			}
			seen[k.addr] = i
		}
		runtime.GC()
		for i := 0; i < 20*n; i++ { // many later calls of every kind
			o := rnd(i%3 == 0)
			_ = o.Vector()
			if i%4 == 0 {
				v.Parse(o.Vector())
			}
		}
		runtime.GC()
		for _, k := range ks {
			col.distinct(k.ver+k.clone, true)
			col.count("Vector() strings re-read after later calls", 1)
			if k.s != k.clone {
				col.violate(Violation{Property: prop, Kind: "a string returned by Vector() changed afterwards", Version: vn, Input: k.clone, Expected: k.clone, Observed: k.s,
					Replay: map[string]interface{}{"mode": "aliasing"}})
			}
		}
		if len(ks) > 0 {
			col.sample(map[string]interface{}{"version": vn, "kept_string": ks[0].clone})
		}
	}
}

func init() {
	modes["seqhist"] = runSeqHist
	modes["seqhist1"] = runSeqHist1
	modes["aliasing"] = runAliasing
}
