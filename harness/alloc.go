package main

// C17: allocation budget. TLC (MC_Alloc) prints the family of objects, the budget of each kind of
// call and the failing inputs that must not disturb a later successful parse; the harness measures
// real allocation counts and compares them with the budget.
//
// Measurement: runtime.MemStats.Mallocs delta around the single call under test, repeated; the
// minimum over the repetitions is the steady-state count (a GC emptying the sync.Pool or a
// background allocation can only add to a sample, never remove from it).

import (
	"encoding/json"
	"runtime"
	"runtime/debug"
)

type allocCase struct {
	Ver     string         `json:"ver"`
	Order   []string       `json:"order"`
	O       []string       `json:"o"`
	Vec     []int          `json:"vec"`
	LenVec  int            `json:"lenvec"`
	Budget  map[string]int `json:"budget"`
	Fails   [][]int        `json:"fails"`
	Illegal [][]int        `json:"illegal"`
}

var sinkS string
var sinkF float64
var sinkE error
var sinkO Obj

// minAllocs: minimum over reps of the mallocs performed by f alone; pre (may be nil) runs before each sample
func minAllocs(reps int, pre func(), f func()) (best uint64) {
	var m1, m2 runtime.MemStats
	best = ^uint64(0)
	defer func() {
		if r := recover(); r != nil {
			best = 0 // a panicking call is not an allocation matter (C09 / C01 report it)
		}
	}()
	for i := 0; i < reps; i++ {
		if pre != nil {
			pre()
		}
		runtime.ReadMemStats(&m1)
		f()
		runtime.ReadMemStats(&m2)
		if d := m2.Mallocs - m1.Mallocs; d < best {
			best = d
		}
	}
	return best
}

func runAllocCases(a *args) {
	prop := a.Prop
	col := newCollector("alloccases", prop)
	old := runtime.GOMAXPROCS(1)
	defer runtime.GOMAXPROCS(old)
	gc := debug.SetGCPercent(-1) // no collection in the middle of a sample
	defer debug.SetGCPercent(gc)
	reps := 12
	if a.Tier == "thorough" {
		reps = 40
	}
	ncase := 0
	readTLCLines(a.In, "@L", func(raw []byte) {
		var c allocCase
		if err := json.Unmarshal(raw, &c); err != nil {
			fatal("bad @L: %v", err)
		}
		ncase++
		if ncase%64 == 0 {
			debug.SetGCPercent(100)
			runtime.GC()
			debug.SetGCPercent(-1)
		}
		v := versions[c.Ver]
		vec := string(bytesOf(c.Vec))
		col.distinct(c.Ver+vec, true)
		rep := map[string]interface{}{"mode": "alloccases", "prefix": "@L", "line": c}
		o := v.Zero()
		for i, m := range c.Order {
			if err := o.Set(m, c.O[i]); err != nil {
				col.count("skipped: legal Set refused (C09)", 1)
				return
			}
		}
		report := func(what string, got uint64, budget int, exact bool, extra map[string]interface{}) {
			col.count(what+" measurements", 1)
			if (exact && got != uint64(budget)) || (!exact && got > uint64(budget)) {
				in := map[string]interface{}{"vector": vec, "call": what}
				for k, x := range extra {
					in[k] = x
				}
				col.violate(Violation{Property: prop, Kind: "allocation budget exceeded", Version: c.Ver, Input: in,
					Expected: map[string]interface{}{"allocs": budget, "exactly": exact}, Observed: got, Replay: rep})
			}
		}
		// Vector(): exactly one
		report("Vector()", minAllocs(reps, nil, func() { sinkS = o.Vector() }), c.Budget["vector"], true, nil)
		// successful ParseVector: at most one, in steady state and right after each kind of failing parse
		if _, err := v.Parse(vec); err == nil {
			report("ParseVector", minAllocs(reps, nil, func() { sinkE = v.ParseRaw(vec) }), c.Budget["parse_ok"], false, nil)
			for _, fb := range c.Fails {
				bad := string(bytesOf(fb))
				report("ParseVector after a failing ParseVector",
					minAllocs(reps, func() { sinkE = v.ParseRaw(bad) }, func() { sinkE = v.ParseRaw(vec) }),
					c.Budget["parse_ok"], false, map[string]interface{}{"preceded_by": bad})
			}
		} else {
			col.count("skipped: canonical vector not parsed (C01)", 1)
		}
		// Get / Set on every known metric, legal and illegal value
		for i, m := range c.Order {
			m, legal, illegal := m, c.O[i], string(bytesOf(c.Illegal[i]))
			report("Get", minAllocs(reps/2, nil, func() { sinkS, sinkE = o.Get(m) }), c.Budget["get"], true, map[string]interface{}{"metric": m})
			report("Set legal", minAllocs(reps/2, nil, func() { sinkE = o.Set(m, legal) }), c.Budget["set"], true, map[string]interface{}{"metric": m, "value": legal})
			report("Set illegal", minAllocs(reps/2, nil, func() { sinkE = o.Set(m, illegal) }), c.Budget["set"], true, map[string]interface{}{"metric": m, "value": illegal})
		}
		// scoring, rating, nomenclature
		for _, sc := range v.Scores {
			sc := sc
			report("score "+sc, minAllocs(reps, nil, func() { sinkF = o.Score(sc) }), c.Budget["score"], true, nil)
		}
		if c.Ver != "4.0" {
			report("score impact", minAllocs(reps, nil, func() { sinkF = o.Score("impact") }), c.Budget["score"], true, nil)
			report("score exploitability", minAllocs(reps, nil, func() { sinkF = o.Score("exploitability") }), c.Budget["score"], true, nil)
		}
		if v.Rating != nil {
			x := o.Score(v.Scores[0])
			report("Rating", minAllocs(reps, nil, func() { sinkS, sinkE = v.Rating(x) }), c.Budget["rating"], true, nil)
		}
		if c.Ver == "4.0" {
			report("Nomenclature", minAllocs(reps, nil, func() { sinkS = o.Nomenclature() }), c.Budget["nomenclature"], true, nil)
		}
		if len(col.s.Samples) < 3 {
			col.sample(map[string]interface{}{"version": c.Ver, "vector": vec, "lenvec": c.LenVec, "budget": c.Budget})
		}
	})
	col.write(a.Out)
}

func init() { modes["alloccases"] = runAllocCases }
