package main

// C17: allocation budget. TLC (MC_Alloc) prints the family of objects, the budget of each kind of
// call and the failing inputs that must not disturb a later successful parse; the harness measures
// real allocation counts and compares them with the budget.
//
// Measurement: runtime.MemStats.Mallocs delta around the single call under test, repeated; the
// minimum over the repetitions is the steady-state count (a GC emptying the sync.Pool or a
// background allocation can only add to a sample, never remove from it).

import (
	"encoding/json"
	"runtime"
	"runtime/debug"
	"strings"
	"sync"
)

type allocCase struct {
	Ver     string         `json:"ver"`
	Order   []string       `json:"order"`
	O       []string       `json:"o"`
	Vec     []int          `json:"vec"`
	LenVec  int            `json:"lenvec"`
	Budget  map[string]int `json:"budget"`
	Fails   [][]int        `json:"fails"`
	Illegal [][]int        `json:"illegal"`
}

var sinkS string
var sinkF float64
var sinkE error
var sinkO Obj

// minAllocs: minimum over reps of the mallocs performed by f alone; pre (may be nil) runs before each sample
func minAllocs(reps int, pre func(), f func()) (best uint64) {
	var m1, m2 runtime.MemStats
	best = ^uint64(0)
	defer func() {
		if r := recover(); r != nil {
			best = 0 // a panicking call is not an allocation matter (C09 / C01 report it)
		}
	}()
	for i := 0; i < reps; i++ {
		if pre != nil {
			pre()
		}
		runtime.ReadMemStats(&m1)
		f()
		runtime.ReadMemStats(&m2)
		if d := m2.Mallocs - m1.Mallocs; d < best {
			best = d
		}
	}
	return best
}

func runAllocCases(a *args) {
	prop := a.Prop
	col := newCollector("alloccases", prop)
	old := runtime.GOMAXPROCS(1)
	defer runtime.GOMAXPROCS(old)
	gc := debug.SetGCPercent(-1) // no collection in the middle of a sample
	defer debug.SetGCPercent(gc)
	reps := 12
	if a.Tier == "thorough" {
		reps = 40
	}
	ncase := 0
	readTLCLines(a.In, "@L", func(raw []byte) {
		var c allocCase
		if err := json.Unmarshal(raw, &c); err != nil {
			fatal("bad @L: %v", err)
		}
		ncase++
		if ncase%64 == 0 {
			debug.SetGCPercent(100)
			runtime.GC()
			debug.SetGCPercent(-1)
		}
		v := versions[c.Ver]
		vec := string(bytesOf(c.Vec))
		col.distinct(c.Ver+vec, true)
		rep := map[string]interface{}{"mode": "alloccases", "prefix": "@L", "line": c}
		o := v.Zero()
		for i, m := range c.Order {
			if err := o.Set(m, c.O[i]); err != nil {
				col.count("skipped: legal Set refused (C09)", 1)
				return
			}
		}
		report := func(what string, got uint64, budget int, exact bool, extra map[string]interface{}) {
			col.count(what+" measurements", 1)
			if (exact && got != uint64(budget)) || (!exact && got > uint64(budget)) {
				in := map[string]interface{}{"vector": vec, "call": what}
				for k, x := range extra {
					in[k] = x
				}
				col.violate(Violation{Property: prop, Kind: "allocation budget exceeded", Version: c.Ver, Input: in,
					Expected: map[string]interface{}{"allocs": budget, "exactly": exact}, Observed: got, Replay: rep})
			}
		}
		// Vector(): exactly one
		report("Vector()", minAllocs(reps, nil, func() { sinkS = o.Vector() }), c.Budget["vector"], true, nil)
		// successful ParseVector: at most one, in steady state and right after each kind of failing parse
		if _, err := v.Parse(vec); err == nil {
			report("ParseVector", minAllocs(reps, nil, func() { sinkE = v.ParseRaw(vec) }), c.Budget["parse_ok"], false, nil)
			if c.Ver == "3.0" || c.Ver == "3.1" {
				// v3 accepts its metrics in any order: the same elements reversed, and rotated by one (accepted iff the
				// grammar says so - checked by parsing first; a spelling the parser refuses is C01's business)
				hdr := "CVSS:" + c.Ver + "/"
				if els := strings.Split(strings.TrimPrefix(vec, hdr), "/"); strings.HasPrefix(vec, hdr) && len(els) > 1 {
					rev := make([]string, len(els))
					for i, e := range els {
						rev[len(els)-1-i] = e
					}
					rot := append(append([]string{}, els[1:]...), els[0])
					for _, alt := range []string{hdr + strings.Join(rev, "/"), hdr + strings.Join(rot, "/")} {
						alt := alt
						if _, err := v.Parse(alt); err == nil {
							report("ParseVector (metrics in another order)", minAllocs(reps, nil, func() { sinkE = v.ParseRaw(alt) }), c.Budget["parse_ok"], false, map[string]interface{}{"spelling": alt})
						}
					}
				}
			}
			for _, fb := range c.Fails {
				bad := string(bytesOf(fb))
				report("ParseVector after a failing ParseVector",
					minAllocs(reps, func() { sinkE = v.ParseRaw(bad) }, func() { sinkE = v.ParseRaw(vec) }),
					c.Budget["parse_ok"], false, map[string]interface{}{"preceded_by": bad})
			}
		} else {
			col.count("skipped: canonical vector not parsed (C01)", 1)
		}
		// Get / Set on every known metric, legal and illegal value
		for i, m := range c.Order {
			m, legal, illegal := m, c.O[i], string(bytesOf(c.Illegal[i]))
			report("Get", minAllocs(reps/2, nil, func() { sinkS, sinkE = o.Get(m) }), c.Budget["get"], true, map[string]interface{}{"metric": m})
			report("Set legal", minAllocs(reps/2, nil, func() { sinkE = o.Set(m, legal) }), c.Budget["set"], true, map[string]interface{}{"metric": m, "value": legal})
			report("Set illegal", minAllocs(reps/2, nil, func() { sinkE = o.Set(m, illegal) }), c.Budget["set"], true, map[string]interface{}{"metric": m, "value": illegal})
			if ncase%8 == 1 {
				// illegal values of every length class (empty, one byte, around typical stack-buffer sizes, long), and a
				// legal value followed by junk; whatever Set does not refuse is skipped here (C09 reports it)
				for _, n := range []int{0, 1, 15, 16, 17, 28, 29, 30, 31, 32, 33, 63, 64, 65, 127, 128, 129, 300, 5000} {
					for _, x := range []string{strings.Repeat("Q", n), legal + strings.Repeat("q", n)} {
						x := x
						if o.Clone().Set(m, x) == nil {
							continue
						}
						report("Set illegal (length classes)", minAllocs(3, nil, func() { sinkE = o.Set(m, x) }), c.Budget["set"], true, map[string]interface{}{"metric": m, "value_length": len(x), "value_prefix": x[:min(len(x), 8)]})
					}
				}
			}
		}
		// scoring, rating, nomenclature
		for _, sc := range v.Scores {
			sc := sc
			report("score "+sc, minAllocs(reps, nil, func() { sinkF = o.Score(sc) }), c.Budget["score"], true, nil)
		}
		if c.Ver != "4.0" {
			report("score impact", minAllocs(reps, nil, func() { sinkF = o.Score("impact") }), c.Budget["score"], true, nil)
			report("score exploitability", minAllocs(reps, nil, func() { sinkF = o.Score("exploitability") }), c.Budget["score"], true, nil)
		}
		if v.Rating != nil {
			x := o.Score(v.Scores[0])
			report("Rating", minAllocs(reps, nil, func() { sinkS, sinkE = v.Rating(x) }), c.Budget["rating"], true, nil)
		}
		if c.Ver == "4.0" {
			report("Nomenclature", minAllocs(reps, nil, func() { sinkS = o.Nomenclature() }), c.Budget["nomenclature"], true, nil)
		}
		if len(col.s.Samples) < 3 {
			col.sample(map[string]interface{}{"version": c.Ver, "vector": vec, "lenvec": c.LenVec, "budget": c.Budget})
		}
	})
	col.write(a.Out)
}

// allocconc: the same budget with several goroutines inside the same function at the same time (each on its own
// object): total mallocs of the process / number of calls.  Steady state: a warm-up round first; the garbage
// collector is off; the only foreign allocations are the goroutines themselves (a few dozen against >= 160,000
// calls), so the average must stay within 2% of the budget (Vector: 1, ParseVector: <= 1, the others 0).
func runAllocConc(a *args) {
	prop := a.Prop
	col := newCollector("allocconc", prop)
	gc := debug.SetGCPercent(-1)
	defer debug.SetGCPercent(gc)
	G := 8
	R := 20000
	if a.Tier == "thorough" {
		R = 100000
	}
	var cases []allocCase
	readTLCLines(a.In, "@L", func(raw []byte) {
		var c allocCase
		if json.Unmarshal(raw, &c) == nil {
			cases = append(cases, c)
		}
	})
	if len(cases) == 0 {
		fatal("allocconc: no @L lines")
	}
	for _, vn := range verOrder {
		v := versions[vn]
		var objs []Obj
		var vecs []string
		for i := range cases {
			c := cases[(i*7+int(a.Seed))%len(cases)]
			if c.Ver != vn || len(objs) >= G {
				continue
			}
			o := v.Zero()
			ok := true
			for i, m := range c.Order {
				if o.Set(m, c.O[i]) != nil {
					ok = false
				}
			}
			if _, err := v.Parse(string(bytesOf(c.Vec))); err != nil || !ok {
				continue
			}
			objs = append(objs, o)
			vecs = append(vecs, string(bytesOf(c.Vec)))
		}
		if len(objs) < G {
			col.count("skipped: fewer than 8 usable objects", 1)
			continue
		}
		type op struct {
			name   string
			lo, hi float64
			f      func(g int)
		}
		ops := []op{
			{"Vector()", 1, 1, func(g int) { runtime.KeepAlive(objs[g].Vector()) }},
			{"ParseVector", 0, 1, func(g int) { runtime.KeepAlive(v.ParseRaw(vecs[g])) }},
			{"score", 0, 0, func(g int) { runtime.KeepAlive(objs[g].Score(v.Scores[len(v.Scores)-1])) }},
		}
		for _, o := range ops {
			run := func(r int) float64 {
				var wg sync.WaitGroup
				var m1, m2 runtime.MemStats
				start := make(chan struct{})
				for g := 0; g < G; g++ {
					wg.Add(1)
					go func(g int) {
						defer wg.Done()
						<-start
						safely(func() {
							for i := 0; i < r; i++ {
								o.f(g)
							}
						})
					}(g)
				}
				runtime.ReadMemStats(&m1)
				close(start)
				wg.Wait()
				runtime.ReadMemStats(&m2)
				return float64(m2.Mallocs-m1.Mallocs) / float64(G*r)
			}
			run(R / 10) // warm-up
			best := run(R)
			if x := run(R); x < best {
				best = x
			}
			col.count("concurrent steady-state measurements", 1)
			col.distinct(vn+o.name, true)
			col.s.Evaluations += int64(2 * G * R)
			if best > o.hi+0.02 || best < o.lo-0.02 {
				col.violate(Violation{Property: prop, Kind: "allocations per call outside the budget when " + o.name + " runs in 8 goroutines at once", Version: vn,
					Input: map[string]interface{}{"function": o.name, "goroutines": G, "calls_each": R}, Expected: map[string]float64{"min": o.lo, "max": o.hi}, Observed: best})
			}
		}
	}
	col.write(a.Out)
}

func init() { modes["alloccases"] = runAllocCases; modes["allocconc"] = runAllocConc }
