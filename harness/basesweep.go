package main

// Exhaustive canonical base vectors (C01, C06, C08): every combination of mandatory metric values of
// every version (2.0: 729, 3.0/3.1: 2,592 each, 4.0: 104,976), written canonically from the
// specification tables, alone and followed by each optional metric at each value (2.0: by each whole
// optional group with seeded values). All are well formed by the grammar: they must be accepted,
// mean what they say, and serialise back to themselves (minus undefined optional metrics).

import (
	"encoding/json"
	"math/rand"
	"runtime"
	"strings"
	"sync"
)

func runBaseSweep(a *args) {
	prop := a.Prop
	col := newCollector("basesweep", prop)
	var tabs specTables
	if err := json.Unmarshal([]byte(a.Aux), &tabs); err != nil {
		fatal("basesweep: -aux must carry the spec tables: %v", err)
	}
	rng := rand.New(rand.NewSource(a.Seed))
	var total int64
	var mu sync.Mutex
	for _, vn := range verOrder {
		v := versions[vn]
		ord, vals := tabs.Order[vn], tabs.Values[vn]
		undef := "X"
		if vn == "2.0" {
			undef = "ND"
		}
		var base, opt []string
		for _, m := range ord {
			if vals[m][0] == "X" || vals[m][len(vals[m])-1] == "ND" {
				opt = append(opt, m)
			} else {
				base = append(base, m)
			}
		}
		hdr := map[string]string{"2.0": "", "3.0": "CVSS:3.0/", "3.1": "CVSS:3.1/", "4.0": "CVSS:4.0/"}[vn]
		// optional suffixes: (text, metric->value)
		type suffix struct {
			text string
			set  map[string]string
		}
		sufs := []suffix{{"", nil}}
		if vn == "2.0" {
			for g := 0; g < 6; g++ {
				t := map[string]string{"E": vals["E"][rng.Intn(5)], "RL": vals["RL"][rng.Intn(5)], "RC": vals["RC"][rng.Intn(4)]}
				e := map[string]string{"CDP": vals["CDP"][rng.Intn(6)], "TD": vals["TD"][rng.Intn(5)], "CR": vals["CR"][rng.Intn(4)], "IR": vals["IR"][rng.Intn(4)], "AR": vals["AR"][rng.Intn(4)]}
				ts := "/E:" + t["E"] + "/RL:" + t["RL"] + "/RC:" + t["RC"]
				es := "/CDP:" + e["CDP"] + "/TD:" + e["TD"] + "/CR:" + e["CR"] + "/IR:" + e["IR"] + "/AR:" + e["AR"]
				switch g % 3 {
				case 0:
					sufs = append(sufs, suffix{ts, t})
				case 1:
					sufs = append(sufs, suffix{es, e})
				default:
					both := map[string]string{}
					for k, x := range t {
						both[k] = x
					}
					for k, x := range e {
						both[k] = x
					}
					sufs = append(sufs, suffix{ts + es, both})
				}
			}
		} else {
			for _, m := range opt {
				for _, x := range vals[m] {
					sufs = append(sufs, suffix{"/" + m + ":" + x, map[string]string{m: x}})
				}
			}
		}
		// all base combinations
		var combos [][]string
		var rec func(d int, cur []string)
		rec = func(d int, cur []string) {
			if d == len(base) {
				combos = append(combos, append([]string(nil), cur...))
				return
			}
			for _, x := range vals[base[d]] {
				rec(d+1, append(cur, x))
			}
		}
		rec(0, nil)
		work := make(chan [][]string, 64)
		var wg sync.WaitGroup
		for w := 0; w < runtime.GOMAXPROCS(0); w++ {
			wg.Add(1)
			go func() {
				defer wg.Done()
				var n int64
				for chunk := range work {
					for ci, combo := range chunk {
						parts := make([]string, len(base))
						for i, m := range base {
							parts[i] = m + ":" + combo[i]
						}
						b := hdr + strings.Join(parts, "/")
						// every base combination alone; suffixes on a rotating subset (every combination gets several)
						for si, sf := range sufs {
							if si != 0 && vn == "4.0" && (ci+si)%16 != 0 {
								continue
							}
							s := b + sf.text
							n++
							o, err := v.Parse(s)
							if err != nil || o == nil {
								if prop == "C01" {
									col.violate(Violation{Property: prop, Kind: "accept/reject differs from the grammar", Version: vn, Input: inputRec([]byte(s)),
										Expected: map[string]interface{}{"well_formed": true}, Observed: map[string]interface{}{"accepted": false, "error": v.ErrKind(err)}})
								}
								continue
							}
							if prop == "C06" {
								for i, m := range base {
									if g, e := o.Get(m); e != nil || g != combo[i] {
										col.violate(Violation{Property: prop, Kind: "Get after ParseVector differs from the vector text", Version: vn, Input: inputRec([]byte(s)), Expected: map[string]string{m: combo[i]}, Observed: g})
									}
								}
								for _, m := range opt {
									want := undef
									if x, ok := sf.set[m]; ok {
										want = x
									}
									if g, e := o.Get(m); e != nil || g != want {
										col.violate(Violation{Property: prop, Kind: "Get after ParseVector differs from the vector text", Version: vn, Input: inputRec([]byte(s)), Expected: map[string]string{m: want}, Observed: g})
									}
								}
							}
							if prop == "C08" {
								want := s
								if vn != "2.0" {
									for _, x := range sf.set {
										if x == "X" {
											want = b
										}
									}
								} else if sf.set != nil {
									// a v2 group whose metrics are all ND is dropped
									allT, allE := true, true
									for _, m := range []string{"E", "RL", "RC"} {
										if x, ok := sf.set[m]; ok && x != "ND" {
											allT = false
										}
									}
									for _, m := range []string{"CDP", "TD", "CR", "IR", "AR"} {
										if x, ok := sf.set[m]; ok && x != "ND" {
											allE = false
										}
									}
									if allT || allE {
										continue // rare; the canonical form is computed by the specification in the TLC-driven part
									}
								}
								if got := o.Vector(); got != want {
									col.violate(Violation{Property: prop, Kind: "parse-then-serialise is not the canonical form", Version: vn, Input: inputRec([]byte(s)), Expected: want, Observed: got})
								}
							}
						}
					}
				}
				mu.Lock()
				total += n
				mu.Unlock()
			}()
		}
		for i := 0; i < len(combos); i += 256 {
			j := i + 256
			if j > len(combos) {
				j = len(combos)
			}
			work <- combos[i:j]
		}
		close(work)
		wg.Wait()
		col.count(vn+" base combinations", int64(len(combos)))
	}
	col.s.Evaluations = total
	col.s.Distinct = total
	col.s.Nontrivial = total
	col.sample(map[string]interface{}{"vectors": total})
	col.write(a.Out)
}

func init() { modes["basesweep"] = runBaseSweep }
