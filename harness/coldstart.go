package main

// Cold-start concurrency probe (C03, C04, C05, C15): in a FRESH process, all CPUs make their very
// first call of a scoring function / Rating at the same moment (spin barrier, staggered head starts).
// A lazily built table published before it is filled, an unsynchronised "first use" initialisation,
// shows only here. Expected values come from the TLC tables; the driver runs several processes.

import (
	"encoding/json"
	"runtime"
	"sync"
	"sync/atomic"
)

type coldJob struct {
	ver    string
	obj    Obj
	method string
	want   mask // admissible tenths
	vec    string
}

// raceStart releases k callers (k-1 goroutines + the calling goroutine, one per P) from a spin barrier
// into fn at the same moment, with head starts of a few dozen nanoseconds.
var spinSink uint64

func raceStart(k int, fn func(i int)) {
	var wg sync.WaitGroup
	var ready, goFlag int32
	stagger := func(i int) {
		for j := 0; j < (i%4)*40; j++ {
			atomic.AddUint64(&spinSink, 1)
		}
	}
	for i := 0; i < k-1; i++ {
		wg.Add(1)
		go func(i int) {
			defer wg.Done()
			atomic.AddInt32(&ready, 1)
			for atomic.LoadInt32(&goFlag) == 0 {
			}
			stagger(i)
			fn(i)
		}(i)
	}
	for atomic.LoadInt32(&ready) < int32(k-1) {
		runtime.Gosched()
	}
	atomic.StoreInt32(&goFlag, 1)
	stagger(k - 1)
	fn(k - 1)
	wg.Wait()
}

func runColdStart(a *args) {
	prop := a.Prop
	col := newCollector("coldstart", prop)
	var jobs []coldJob
	add := func(ver string, o Obj, method string, w mask) {
		jobs = append(jobs, coldJob{ver, o, method, w, o.Vector()})
	}
	one := func(k int) mask { var m mask; m.add(k); return m }
	n := runtime.GOMAXPROCS(0)
	switch prop {
	case "C02":
		// first Vector() / ParseVector calls of the process, made concurrently; objects and their canonical
		// strings from the model states ("@S" lines of MC_Object)
		var sts []objState
		readTLCLines(a.In, "@S", func(raw []byte) {
			var s objState
			if json.Unmarshal(raw, &s) == nil && len(sts) < 4000 {
				sts = append(sts, s)
			}
		})
		if len(sts) == 0 {
			fatal("coldstart: no @S lines")
		}
		k := n
		type vr struct {
			ver, want, got string
			back           bool
		}
		res := make([]vr, k)
		objs := make([]Obj, k)
		for i := 0; i < k; i++ {
			// one version per process: all callers race for the same package's first use
			want := verOrder[int(a.Seed)&3]
			s := sts[(int(a.Seed)*31+i*37)%len(sts)]
			for j := 0; s.Ver != want && j < len(sts); j++ {
				s = sts[(int(a.Seed)*31+i*37+j*101)%len(sts)]
			}
			o := versions[s.Ver].Zero()
			for j, m := range s.Order {
				o.Set(m, s.O[j])
			}
			objs[i] = o
			res[i] = vr{ver: s.Ver, want: string(bytesOf(s.Vec))}
		}
		raceStart(k, func(i int) {
			safely(func() {
				res[i].got = objs[i].Vector()
				b, err := versions[res[i].ver].Parse(res[i].got)
				res[i].back = err == nil && b != nil && b.Same(objs[i])
			})
		})
		for _, r := range res {
			col.distinct(r.ver+r.want, true)
			col.count("first-use Vector()/ParseVector round trips", 1)
			if !r.back {
				col.violate(Violation{Property: prop, Kind: "ParseVector(Vector()) != original object (first calls of the process, made concurrently)", Version: r.ver,
					Input: r.want, Expected: "round trip to an == object", Observed: r.got})
			}
		}
		col.write(a.Out)
		return
	case "C03":
		tb := loadV3Tables(a.In)
		// one version per process (all callers race for the SAME package's first use); the driver alternates the seed
		for _, vn := range []string{[]string{"3.0", "3.1"}[int(a.Seed)&1]} {
			i := 0
			for _, av := range tb.vals["AV"] {
				for _, c := range tb.vals["C"] {
					for _, s := range tb.vals["S"] {
						cl := map[string]string{"AV": av, "AC": "L", "PR": "N", "UI": "N", "S": s, "C": c, "I": "L", "A": "N", "E": "X", "RL": "X", "RC": "X", "CR": "X", "IR": "X", "AR": "X"}
						o := versions[vn].Zero()
						for m, x := range cl {
							mustSet(o, m, x)
						}
						wb := tb.expectBase(cl)
						add(vn, o, []string{"base", "temporal", "environmental"}[i%3], one([]int{wb, tb.expectTemporal(cl, wb), tb.expectEnv(vn, cl)}[i%3]))
						i++
					}
				}
			}
		}
	case "C05":
		tb := loadV2Tables(a.In)
		metrics := []string{"AV", "AC", "Au", "C", "I", "A", "E", "RL", "RC", "CDP", "TD", "CR", "IR", "AR"}
		i := 0
		for _, av := range tb.vals["AV"] {
			for _, c := range tb.vals["C"] {
				for _, au := range tb.vals["Au"] {
					o := versions["2.0"].Zero()
					mustSet(o, "AV", av)
					mustSet(o, "C", c)
					mustSet(o, "Au", au)
					mustSet(o, "I", "P")
					wb, wt, we := tb.expect(o, metrics)
					add("2.0", o, []string{"base", "temporal", "environmental"}[i%3], []mask{wb, wt, we}[i%3])
					i++
				}
			}
		}
	case "C04":
		tb := loadV4Tables(a.In)
		for _, av := range tb.vals["AV"] {
			for _, vc := range tb.vals["VC"] {
				for _, e := range tb.vals["E"] {
					cl := map[string]string{"AV": av, "AC": "L", "AT": "N", "PR": "N", "UI": "N", "VC": vc, "VI": "L", "VA": "N", "SC": "L", "SI": "N", "SA": "N", "E": e, "CR": "H", "IR": "H", "AR": "H"}
					add("4.0", tb.canonical(cl), "score", one(tb.v[tb.view(cl)]))
				}
			}
		}
	case "C15":
		// Rating grid points from the model ("@G" lines)
		type gp struct {
			N int    `json:"n"`
			R string `json:"r"`
		}
		var pts []gp
		readTLCLines(a.In, "@G", func(raw []byte) {
			var g gp
			json.Unmarshal(raw, &g)
			if g.N%37 == 0 || g.N == 1000 || g.N == 0 || g.N == 900 || g.N == 10 {
				pts = append(pts, g)
			}
		})
		type res struct {
			ver  string
			x    float64
			want string
			got  string
		}
		var out []res
		// one barrier per package (each has its own first use); every caller makes ONE call, all at once
		for vi, vn := range []string{"3.0", "3.1", "4.0"} {
			part := make([]res, n)
			raceStart(n, func(i int) {
				g := pts[(int(a.Seed)*7+vi*11+i*5)%len(pts)]
				x := float64(g.N) / 100
				r := "!panic"
				safely(func() {
					s, err := versions[vn].Rating(x)
					r = s
					if err != nil {
						r = "!bounds"
						if kk := versions[vn].ErrKind(err); kk.Kind != "bounds" || s != "" {
							r = "!other"
						}
					}
				})
				part[i] = res{vn, x, g.R, r}
			})
			out = append(out, part...)
		}
		for _, r := range out {
			col.distinct(r.ver+fmtF(r.x), true)
			col.count("first-use Rating calls", 1)
			if r.got != r.want {
				col.violate(Violation{Property: prop, Kind: "Rating differs from the scale (first calls of the process, made concurrently)", Version: r.ver, Input: fmtF(r.x), Expected: r.want, Observed: r.got})
			}
		}
		col.write(a.Out)
		return
	}
	if len(jobs) > n {
		// a different subset in every process
		off := int(a.Seed) % len(jobs)
		jobs = append(jobs[off:], jobs[:off]...)[:n]
	}
	got := make([]float64, len(jobs))
	pan := make([]string, len(jobs))
	raceStart(len(jobs), func(i int) {
		p, msg := safely(func() { got[i] = jobs[i].obj.Score(jobs[i].method) })
		if p {
			pan[i] = msg
		}
	})
	for i, j := range jobs {
		col.distinct(j.ver+j.vec+j.method, true)
		col.count("first-use scoring calls", 1)
		k, ok := isTenth(got[i], -2, 100)
		if pan[i] != "" || !ok || !j.want.has(k) {
			col.violate(Violation{Property: prop, Kind: "score differs from the specification (first calls of the process, made concurrently)", Version: j.ver,
				Input: map[string]interface{}{"vector": j.vec, "method": j.method}, Expected: j.want.list(), Observed: map[string]interface{}{"score": fmtF(got[i]), "panic": pan[i]}})
		}
	}
	col.write(a.Out)
}

func init() { modes["coldstart"] = runColdStart }
