package main

import (
	"bufio"
	"encoding/json"
	"fmt"
	"os"
	"sort"
	"strconv"
	"strings"
	"sync"
)

// Violation is one case in which the real code did something the spec does not allow.
type Violation struct {
	Property string                 `json:"property"`
	Kind     string                 `json:"kind"`    // what was compared
	Version  string                 `json:"version"` // package driven
	Input    interface{}            `json:"input"`   // replayable input (bytes as string + raw)
	Expected interface{}            `json:"expected"`
	Observed interface{}            `json:"observed"`
	Extra    map[string]interface{} `json:"extra,omitempty"`
	Replay   map[string]interface{} `json:"replay,omitempty"` // how to re-run exactly this case
}

type Summary struct {
	Mode        string                 `json:"mode"`
	Property    string                 `json:"property"`
	Evaluations int64                  `json:"evaluations"`
	Distinct    int64                  `json:"distinct"`
	Nontrivial  int64                  `json:"distinct_nontrivial"`
	Compared    map[string]int64       `json:"compared"`
	Violations  []Violation            `json:"violations"`
	NViolations int64                  `json:"n_violations"`
	Samples     []interface{}          `json:"samples"`
	Info        map[string]interface{} `json:"info,omitempty"`
}

type collector struct {
	mu   sync.Mutex
	s    Summary
	maxV int
	seen map[string]struct{}
	perK map[string]int
}

func newCollector(mode, prop string) *collector {
	return &collector{s: Summary{Mode: mode, Property: prop, Compared: map[string]int64{}, Info: map[string]interface{}{}, Violations: []Violation{}, Samples: []interface{}{}}, maxV: 4000, seen: map[string]struct{}{}, perK: map[string]int{}}
}

func (c *collector) violate(v Violation) {
	c.mu.Lock()
	defer c.mu.Unlock()
	c.s.NViolations++
	// keep up to 10 representatives of every class of violation, so that a new
	// kind of violation is never crowded out by many instances of another one
	key := v.Property + "|" + v.Kind + "|" + v.Version
	if e, ok := v.Expected.(ErrK); ok {
		key += "|" + e.Kind
	}
	if e, ok := v.Observed.(ErrK); ok {
		key += "|" + e.Kind
	}
	for _, k := range sortedKeys(v.Extra) {
		if b, ok := v.Extra[k].(bool); ok {
			key += fmt.Sprintf("|%s=%v", k, b)
		}
	}
	if c.perK[key] < 10 && len(c.s.Violations) < c.maxV {
		c.perK[key]++
		c.s.Violations = append(c.s.Violations, v)
	}
}

func (c *collector) count(what string, n int64) {
	c.mu.Lock()
	c.s.Compared[what] += n
	c.mu.Unlock()
}

func (c *collector) sample(x interface{}) {
	c.mu.Lock()
	if len(c.s.Samples) < 6 {
		c.s.Samples = append(c.s.Samples, x)
	}
	c.mu.Unlock()
}

// distinct registers a case key; returns true when new.
func (c *collector) distinct(key string, nontrivial bool) bool {
	c.mu.Lock()
	defer c.mu.Unlock()
	c.s.Evaluations++
	if _, ok := c.seen[key]; ok {
		return false
	}
	c.seen[key] = struct{}{}
	c.s.Distinct++
	if nontrivial {
		c.s.Nontrivial++
	}
	return true
}

func (c *collector) write(path string) {
	c.mu.Lock()
	defer c.mu.Unlock()
	f, err := os.Create(path)
	if err != nil {
		fatal("cannot write summary: %v", err)
	}
	defer f.Close()
	enc := json.NewEncoder(f)
	enc.SetIndent("", " ")
	if err := enc.Encode(&c.s); err != nil {
		fatal("encode summary: %v", err)
	}
}

func sortedKeys(m map[string]interface{}) []string {
	ks := make([]string, 0, len(m))
	for k := range m {
		ks = append(ks, k)
	}
	sort.Strings(ks)
	return ks
}

func fatal(f string, a ...interface{}) {
	fmt.Fprintf(os.Stderr, "harness: "+f+"\n", a...)
	os.Exit(2)
}

// readTLCLines streams the JSON payloads of TLC PrintT lines with the given
// prefix (e.g. "@C") from a TLC output file. Lines look like "@C{...}" with
// TLA+ string quoting.
func readTLCLines(path, prefix string, fn func(raw []byte)) int {
	f, err := os.Open(path)
	if err != nil {
		fatal("open %s: %v", path, err)
	}
	defer f.Close()
	rd := bufio.NewReaderSize(f, 1<<20)
	n := 0
	want := "\"" + prefix
	for {
		line, err := rd.ReadString('\n')
		if len(line) > 0 {
			line = strings.TrimRight(line, "\r\n")
			if strings.HasPrefix(line, want) {
				s, uerr := strconv.Unquote(line)
				if uerr != nil {
					fatal("cannot unquote TLC line: %v: %.200s", uerr, line)
				}
				fn([]byte(s[len(prefix):]))
				n++
			} else if strings.HasPrefix(line, prefix) { // already unquoted (replay files)
				fn([]byte(line[len(prefix):]))
				n++
			}
		}
		if err != nil {
			break
		}
	}
	return n
}

func bytesOf(ints []int) []byte {
	b := make([]byte, len(ints))
	for i, x := range ints {
		b[i] = byte(x)
	}
	return b
}

func intsOf(s string) []int {
	r := make([]int, len(s))
	for i := 0; i < len(s); i++ {
		r[i] = int(s[i])
	}
	return r
}

// inputRec makes a replayable, human-readable record of a byte string.
func inputRec(b []byte) map[string]interface{} {
	return map[string]interface{}{"text": strconv.Quote(string(b)), "bytes": intsOf(string(b))}
}

// safely runs f and converts a panic into an error string.
func safely(f func()) (panicked bool, msg string) {
	defer func() {
		if r := recover(); r != nil {
			panicked = true
			msg = fmt.Sprint(r)
		}
	}()
	f()
	return
}
