package main

// Parse-and-hold under concurrency (C14: "a copy of an object is independent", results do not depend on
// what other goroutines are doing).  Every goroutine parses canonical vectors written from the
// specification tables, reads Vector() of the result once (the baseline), KEEPS the
// returned objects in a ring, parses failing variants in between (cut short, illegal value, unknown
// abbreviation, repeated element - an error path that releases or recycles something), and keeps
// re-reading the objects it holds: an object handed to a caller must never change unless its owner
// calls Set on it.  A parser that carves results out of a shared chunk and gives a slot back on the
// error path, a pooled result object, a shared scratch object - two "distinct" results then alias
// the same memory - shows here (and as a data race in the -race build of the same run).

import (
	"encoding/json"
	"math/rand"
	"runtime"
	"strings"
	"sync"
)

func runConcHold(a *args) {
	prop := a.Prop
	col := newCollector("conchold", prop)
	var tabs specTables
	if err := json.Unmarshal([]byte(a.Aux), &tabs); err != nil {
		fatal("conchold: -aux must carry the spec tables: %v", err)
	}
	N := a.N
	if N <= 0 {
		N = 20000
	}
	G := runtime.GOMAXPROCS(0)
	if G < 4 {
		G = 4
	}
	var total int64
	var mu sync.Mutex
	for _, vn := range verOrder {
		v := versions[vn]
		ord, vals := tabs.Order[vn], tabs.Values[vn]
		undef := "X"
		if vn == "2.0" {
			undef = "ND"
		}
		hdr := map[string]string{"2.0": "", "3.0": "CVSS:3.0/", "3.1": "CVSS:3.1/", "4.0": "CVSS:4.0/"}[vn]
		isOpt := map[string]bool{}
		for _, m := range ord {
			isOpt[m] = vals[m][0] == "X" || vals[m][len(vals[m])-1] == "ND"
		}
		text := func(rng *rand.Rand) string {
			asg := map[string]string{}
			for _, m := range ord {
				vs := vals[m]
				if isOpt[m] && rng.Intn(2) == 0 {
					asg[m] = undef
				} else {
					asg[m] = vs[rng.Intn(len(vs))]
				}
			}
			var parts []string
			if vn == "2.0" {
				grp := func(ms []string) bool {
					for _, m := range ms {
						if asg[m] != "ND" {
							return true
						}
					}
					return false
				}
				for _, m := range ord[:6] {
					parts = append(parts, m+":"+asg[m])
				}
				if grp(ord[6:9]) {
					for _, m := range ord[6:9] {
						parts = append(parts, m+":"+asg[m])
					}
				}
				if grp(ord[9:]) {
					for _, m := range ord[9:] {
						parts = append(parts, m+":"+asg[m])
					}
				}
			} else {
				for _, m := range ord {
					if !isOpt[m] || asg[m] != undef {
						parts = append(parts, m+":"+asg[m])
					}
				}
			}
			return hdr + strings.Join(parts, "/")
		}
		var wg sync.WaitGroup
		for g := 0; g < G; g++ {
			wg.Add(1)
			go func(g int) {
				defer wg.Done()
				rng := rand.New(rand.NewSource(a.Seed*104729 + int64(g)))
				type held struct {
					o Obj
					s string
				}
				ring := make([]held, 48)
				var n int64
				verify := func(h held, when string) {
					if h.o == nil {
						return
					}
					var got string
					if p, msg := safely(func() { got = h.o.Vector() }); p {
						got = "panic: " + msg
					}
					n++
					if got != h.s {
						col.violate(Violation{Property: prop, Kind: "an object returned by ParseVector changed while its owner only read it (" + when + ")", Version: vn,
							Input: map[string]interface{}{"first_read": h.s, "goroutines": G}, Expected: h.s, Observed: got})
					}
				}
				for i := 0; i < N/G+1; i++ {
					s := text(rng)
					// failing variants in between: their error paths must not touch anybody's result
					for k := rng.Intn(3); k > 0; k-- {
						t := text(rng)
						var bad string
						switch rng.Intn(5) {
						case 0:
							bad = t[:len(hdr)+rng.Intn(len(t)-len(hdr))]
						case 1:
							bad = t + "?"
						case 2:
							bad = t + "/ZZ:Z"
						case 3:
							j := len(hdr) + rng.Intn(len(t)-len(hdr))
							bad = t[:j] + "?" + t[j:]
						case 4:
							bad = t + t[strings.LastIndexByte(t, '/'):]
						}
						safely(func() { v.Parse(bad) })
					}
					var o Obj
					var err error
					if p, _ := safely(func() { o, err = v.Parse(s) }); p || err != nil || o == nil {
						continue // accept/reject is C01's business
					}
					// the baseline is what the owner reads right after the parse; whether THAT is the canonical text is C08's
					// business (a deterministic difference is only counted); what must never happen is a later change
					base := s
					if p, _ := safely(func() { base = o.Vector() }); p {
						continue
					}
					if base != s {
						col.count("fresh parse results whose Vector() is not the text parsed (left to C08)", 1)
					}
					slot := rng.Intn(len(ring))
					verify(ring[slot], "re-read before being dropped")
					ring[slot] = held{o, base}
					verify(ring[rng.Intn(len(ring))], "re-read while other goroutines parse")
					if i%64 == 0 {
						runtime.Gosched()
					}
				}
				for _, h := range ring {
					verify(h, "re-read at the end")
				}
				mu.Lock()
				total += n
				mu.Unlock()
			}(g)
		}
		wg.Wait()
	}
	col.s.Evaluations = total
	col.s.Distinct = total
	col.s.Nontrivial = total
	col.count("held parse results re-read under concurrency", total)
	col.sample(map[string]interface{}{"goroutines": G, "re_reads": total})
	col.write(a.Out)
}

func init() { modes["conchold"] = runConcHold }
