package main

// Cross-matrix under concurrency (C01, C13): the strings of the TLC family whose verdicts the grammar
// gives for all four versions are thrown at all four parsers from many goroutines at once; every
// verdict must still be the grammar's (a check that depends on what another goroutine is parsing at
// the same moment - a shared flag, a shared scratch variable - shows only here).

import (
	"encoding/json"
	"math/rand"
	"runtime"
	"sync"
)

func runConcMatrix(a *args) {
	prop := a.Prop
	col := newCollector("concmatrix", prop)
	type item struct {
		s  string
		wf map[string]bool
	}
	var items []item
	readTLCLines(a.In, "@C", func(raw []byte) {
		var c parseCase
		if err := json.Unmarshal(raw, &c); err != nil {
			fatal("bad @C line: %v", err)
		}
		f := c.Tag.F
		if f == "header" || f == "major" || f == "minor" || f == "tail" || f == "byte" && len(items)%7 == 0 {
			items = append(items, item{string(bytesOf(c.B)), c.WF})
		}
	})
	if len(items) == 0 {
		fatal("concmatrix: no cases")
	}
	iters := a.N
	if iters <= 0 {
		iters = 40000
	}
	var wg sync.WaitGroup
	nw := runtime.GOMAXPROCS(0)
	if nw < 4 {
		nw = 4
	}
	for w := 0; w < nw; w++ {
		wg.Add(1)
		go func(w int) {
			defer wg.Done()
			rng := rand.New(rand.NewSource(a.Seed*131 + int64(w)))
			for i := 0; i < iters; i++ {
				it := items[rng.Intn(len(items))]
				vn := verOrder[rng.Intn(4)]
				var err error
				p, _ := safely(func() { _, err = versions[vn].Parse(it.s) })
				acc := !p && err == nil
				col.count("verdicts under concurrency", 1)
				if acc != it.wf[vn] {
					kind := "accept/reject differs from the grammar (while other goroutines were parsing)"
					if prop == "C13" {
						if !acc {
							continue // a wrong rejection is C01's business
						}
						kind = "string not of this version accepted (while other goroutines were parsing)"
					}
					col.violate(Violation{Property: prop, Kind: kind, Version: vn, Input: inputRec([]byte(it.s)),
						Expected: map[string]interface{}{"well_formed": it.wf[vn]}, Observed: map[string]interface{}{"accepted": acc}})
				}
			}
		}(w)
	}
	wg.Wait()
	// Focused phase (round 8, r8-C13-1: a package-level staging area of the header comparison): all
	// goroutines are inside the SAME parser at once, the even ones with strings of that version, the odd
	// ones with strings that are well-formed for ANOTHER version only; no shared counter in the loop,
	// so that the calls really overlap.  A verdict that leaks from one call into another shows here.
	var focused int64
	for _, vn := range verOrder {
		var own, other []item
		for _, it := range items {
			if it.wf[vn] {
				own = append(own, it)
				continue
			}
			for _, u := range verOrder {
				if it.wf[u] {
					other = append(other, it)
					break
				}
			}
		}
		if len(own) == 0 || len(other) == 0 {
			continue
		}
		var wg2 sync.WaitGroup
		var mu sync.Mutex
		parse := versions[vn].Parse
		for w := 0; w < nw; w++ {
			wg2.Add(1)
			go func(w int, vn string) {
				defer wg2.Done()
				rng := rand.New(rand.NewSource(a.Seed*977 + int64(w)))
				set := own
				if w%2 == 1 {
					set = other
				}
				for i := 0; i < iters; i++ {
					it := set[rng.Intn(len(set))]
					var err error
					p, _ := safely(func() { _, err = parse(it.s) })
					acc := !p && err == nil
					if acc != it.wf[vn] {
						kind := "accept/reject differs from the grammar (while other goroutines were inside the same parser)"
						if prop == "C13" {
							if !acc {
								continue // a wrong rejection is C01's business
							}
							kind = "string of another version accepted (while other goroutines were inside the same parser)"
						}
						col.violate(Violation{Property: prop, Kind: kind, Version: vn, Input: inputRec([]byte(it.s)),
							Expected: map[string]interface{}{"well_formed": it.wf[vn]}, Observed: map[string]interface{}{"accepted": acc}})
					}
				}
				mu.Lock()
				focused += int64(iters)
				mu.Unlock()
			}(w, vn)
		}
		wg2.Wait()
	}
	col.count("verdicts with all goroutines inside one parser", focused)
	col.s.Evaluations = int64(nw*iters) + focused
	col.s.Distinct = int64(len(items))
	col.s.Nontrivial = int64(len(items))
	col.sample(map[string]interface{}{"strings": len(items), "goroutines": nw})
	col.write(a.Out)
}

func init() { modes["concmatrix"] = runConcMatrix }
