package main

// C14 is about DEPENDENCE ON CONTEXT: the result of a call is a function of its arguments and its
// receiver's value.  Where a C14 mode also knows what the specification says the result should be, a
// difference from the specification is a C14 violation only if it depends on the context - i.e. if the
// same call made alone, in several neutral contexts, gives a different outcome from the one observed
// under the schedule / after the history.  A call that gives the same (wrong) outcome everywhere
// deviates deterministically: that is the business of the property that pins the outcome (C01, C06,
// C09, C18 ...), and is only counted here.

import (
	"runtime"
	"strings"
)

type res20 struct {
	acc bool
	obj string
	pan bool
}

func outcome20(o Obj, err error, pan bool) res20 {
	r := res20{acc: err == nil && !pan, pan: pan}
	if o != nil {
		r.obj = strings.Join(project(o, []string{"AV", "AC", "Au", "C", "I", "A", "E", "RL", "RC", "CDP", "TD", "CR", "IR", "AR"}), ",")
	}
	return r
}

func solo20(s string) res20 {
	var o Obj
	var err error
	p, _ := safely(func() { o, err = versions["2.0"].Parse(s) })
	return outcome20(o, err, p)
}

var ctxCache = map[string]bool{}

// contextDependent20: does ParseVector(s) give, alone in some neutral context, an outcome other than got?
func contextDependent20(s string, got res20) bool {
	key := s + "\x00" + got.obj
	if got.acc {
		key += "\x01"
	}
	if got.pan {
		key += "\x02"
	}
	if d, ok := ctxCache[key]; ok {
		return d
	}
	v := versions["2.0"]
	contexts := []func(){
		func() {},
		func() { runtime.GC(); runtime.GC() }, // sync.Pool emptied: a fresh buffer
		func() { safely(func() { v.Parse(poisonVec["2.0"][1]) }) },           // a full stale buffer
		func() { safely(func() { v.Parse(poisonVec["2.0"][0] + "/") }) },     // after a failing call
		func() { safely(func() { v.Parse("AV:N/AC:L/Au:N/C:N/I:N/A:N") }) },  // a short stale buffer
		func() { runtime.GC(); runtime.GC(); safely(func() { v.Parse(s) }) }, // itself
	}
	dep := false
	for _, c := range contexts {
		c()
		if solo20(s) != got {
			dep = true
			break
		}
	}
	ctxCache[key] = dep
	return dep
}
