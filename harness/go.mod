module verif/harness

go 1.22.0

require github.com/pandatix/go-cvss v0.0.0

replace github.com/pandatix/go-cvss => /repo
