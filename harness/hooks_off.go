//go:build !verifhooks

package main

// /repo no longer has the verif hook symbols: hook-dependent checks are skipped (reduced coverage)
const hooksAvailable = false

func setHook(f func(ev string, buf any, s string)) {}
