//go:build verifhooks

package main

import gocvss20 "github.com/pandatix/go-cvss/20"

const hooksAvailable = true

func setHook(f func(ev string, buf any, s string)) { gocvss20.VerifHook = f }
