package main

// v2.0 neighbour sequences (C05, C14): random objects, each scored right after each of its
// single-metric neighbours. The expected admissible sets come from the stage tables of MC_Score20.

import (
	"math/rand"
	"sort"
)

func (tb *v2tables) expect(o Obj, metrics []string) (mask, mask, mask) {
	c := map[string]string{}
	for _, m := range metrics {
		c[m], _ = o.Get(m)
	}
	ex := tb.idx("exidx", c)
	wb := tb.base[ex][tb.idx("impidx", c)-1]
	t := tb.idx("tidx", c)
	wt := tb.tempOf(wb, t)
	we := tb.envOf(tb.tempOf(tb.adj[ex][tb.idx("adjidx", c)-1], t), tb.idx("didx", c))
	return wb, wt, we
}

func runLift20(a *args) {
	prop := a.Prop
	col := newCollector("lift20", prop)
	tb := loadV2Tables(a.In)
	rng := rand.New(rand.NewSource(a.Seed))
	K := a.N
	if K <= 0 {
		K = 60
	}
	v := versions["2.0"]
	metrics := make([]string, 0, len(tb.vals))
	for m := range tb.vals {
		metrics = append(metrics, m)
	}
	sort.Strings(metrics)
	randomObj := func() Obj {
		o := v.Zero()
		for _, m := range metrics {
			vs := tb.vals[m]
			mustSet(o, m, vs[rng.Intn(len(vs))])
		}
		return o
	}
	member := func(got float64, want mask) bool {
		k, ok := isTenth(got, -2, 100)
		return ok && want.has(k)
	}
	scores := func(o Obj) (b, t, e float64, ok bool) {
		p, _ := safely(func() { b = o.Score("base"); t = o.Score("temporal"); e = o.Score("environmental") })
		return b, t, e, !p
	}
	for k := 0; k < K; k++ {
		o := randomObj()
		b0, t0, e0, ok0 := scores(o)
		col.distinct(o.Vector(), true)
		if len(col.s.Samples) < 3 {
			col.sample(map[string]interface{}{"vector": o.Vector()})
		}
		for _, m := range metrics {
			for _, x := range tb.vals[m] {
				o2 := o.Clone()
				mustSet(o2, m, x)
				b2, t2, e2, ok2 := scores(o2)
				switch prop {
				case "C05":
					wb, wt, we := tb.expect(o2, metrics)
					col.count("neighbours scored right after their neighbour, compared with the guide equations", 3)
					if !ok2 || !member(b2, wb) || !member(t2, wt) || !member(e2, we) {
						col.violate(Violation{Property: prop, Kind: "score differs from the guide equations (scored right after a neighbouring vector)", Version: "2.0",
							Input:    map[string]interface{}{"vector": o2.Vector(), "scored_just_before": o.Vector()},
							Expected: map[string]interface{}{"base": wb.list(), "temporal": wt.list(), "environmental": we.list()},
							Observed: []string{fmtF(b2), fmtF(t2), fmtF(e2)}})
					}
				case "C14":
					b1, t1, e1, ok1 := scores(o)
					col.count("scores repeated after scoring a neighbour", 3)
					if ok0 && ok1 && (b1 != b0 || t1 != t0 || e1 != e0) {
						col.violate(Violation{Property: prop, Kind: "a score depends on what was scored before", Version: "2.0",
							Input: map[string]interface{}{"vector": o.Vector(), "scored_in_between": o2.Vector()}, Expected: []string{fmtF(b0), fmtF(t0), fmtF(e0)}, Observed: []string{fmtF(b1), fmtF(t1), fmtF(e1)}})
					}
				}
			}
		}
	}
	col.write(a.Out)
}

func init() { modes["lift20"] = runLift20 }
