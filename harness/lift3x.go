package main

// C10 (and the lifted half of C03) for v3.0 / v3.1: concrete objects with Modified metrics.
// Effective values come from the EffTable exported by TLC; expected scores from the stage tables.

import (
	"math/rand"
	"sort"
)

func (tb *v3tables) classOf(o Obj) map[string]string {
	c := map[string]string{}
	for m, mm := range tb.modOf {
		b, _ := o.Get(m)
		x, _ := o.Get(mm)
		c[m] = tb.eff[m][b+"|"+x]
	}
	for _, m := range []string{"E", "RL", "RC", "CR", "IR", "AR"} {
		c[m], _ = o.Get(m)
	}
	return c
}

func runLift3x(a *args) {
	prop := a.Prop
	col := newCollector("lift3x", prop)
	tb := loadV3Tables(a.In)
	rng := rand.New(rand.NewSource(a.Seed))
	K := a.N
	if K <= 0 {
		K = 50
	}
	metrics := make([]string, 0, len(tb.vals))
	for m := range tb.vals {
		metrics = append(metrics, m)
	}
	sort.Strings(metrics)
	for _, vn := range []string{"3.0", "3.1"} {
		v := versions[vn]
		randomObj := func() Obj {
			o := v.Zero()
			for _, m := range metrics {
				vs := tb.vals[m]
				mustSet(o, m, vs[rng.Intn(len(vs))])
			}
			return o
		}
		check := func(o Obj, what string) {
			c := tb.classOf(o)
			key := o.Vector()
			col.distinct(key, true)
			if len(col.s.Samples) < 6 {
				col.sample(map[string]interface{}{"vector": key, "family": what, "effective_class": c})
			}
			var ge, gb, gt float64
			p, msg := safely(func() { ge = o.Score("environmental"); gb = o.Score("base"); gt = o.Score("temporal") })
			switch prop {
			case "C12":
				// one severity step of ANY written metric of the realisation - Modified metrics included, a base metric
				// also when it is overridden - must not lower a score (v3.1: all three; v3.0: base and temporal)
				if p {
					return
				}
				methods := []string{"base", "temporal", "environmental"}
				if vn == "3.0" {
					methods = methods[:2]
				}
				base := map[string]float64{"base": gb, "temporal": gt, "environmental": ge}
				for _, m := range metrics {
					ord := tb.sev[m]
					for bm, mm := range tb.modOf {
						if mm == m {
							ord = tb.sev[bm]
						}
					}
					cur, _ := o.Get(m)
					pos := -1
					for i, x := range ord {
						if x == cur {
							pos = i
						}
					}
					if pos < 0 || pos+1 >= len(ord) {
						continue // undefined (X) or already the most severe value
					}
					o2 := o.Clone()
					mustSet(o2, m, ord[pos+1])
					for _, meth := range methods {
						var g2 float64
						if p2, _ := safely(func() { g2 = o2.Score(meth) }); p2 {
							continue
						}
						col.count("severity steps on realisations (Modified metrics included)", 1)
						if g2 < base[meth] {
							col.violate(Violation{Property: prop, Kind: "more severe value lowers the score", Version: vn,
								Input:    map[string]interface{}{"vector": key, "metric": m, "from": cur, "to": ord[pos+1], "more_severe_vector": o2.Vector(), "method": meth},
								Expected: ">= " + fmtF(base[meth]), Observed: fmtF(g2), Extra: map[string]interface{}{"family": what}})
						}
					}
				}
			case "C09":
				col.count("realisations scored without panic", 1)
				if p {
					col.violate(Violation{Property: prop, Kind: "scoring method panicked on a reachable object", Version: vn, Input: key, Expected: "no panic", Observed: msg})
				}
			case "C11":
				col.count("realisations checked for one-decimal scores in range", 1)
				checkTenth(col, prop, v, o, "environmental", ge, p, msg, 0)
				checkTenth(col, prop, v, o, "base", gb, p, msg, 0)
				checkTenth(col, prop, v, o, "temporal", gt, p, msg, 0)
			case "C03":
				we := tb.expectEnv(vn, c)
				col.count("objects compared with the model score of their effective class", 1)
				if p || ge != float64(we)/10 {
					col.violate(Violation{Property: prop, Kind: "EnvironmentalScore differs from the specification equations", Version: vn,
						Input: key, Expected: float64(we) / 10, Observed: map[string]interface{}{"score": fmtF(ge), "panic": msg}, Extra: map[string]interface{}{"family": what},
						Replay: map[string]interface{}{"mode": "score1", "ver": vn, "vector": key, "method": "environmental", "want_tenths": we}})
				}
				// base / temporal read the BASE metrics
				bc := map[string]string{}
				for _, m := range v3base {
					bc[m], _ = o.Get(m)
				}
				for _, m := range v3temp {
					bc[m] = c[m]
				}
				wb := tb.expectBase(bc)
				wt := tb.expectTemporal(bc, wb)
				if !p && (gb != float64(wb)/10 || gt != float64(wt)/10) {
					col.violate(Violation{Property: prop, Kind: "Base/TemporalScore differs from the specification equations", Version: vn,
						Input: key, Expected: []float64{float64(wb) / 10, float64(wt) / 10}, Observed: []string{fmtF(gb), fmtF(gt)}, Extra: map[string]interface{}{"family": what}})
				}
			case "C10":
				if p {
					return
				}
				// same effective values => same environmental score as the canonical realisation
				can := v.Zero()
				for _, m := range v3base {
					mustSet(can, m, c[m])
				}
				for _, m := range []string{"E", "RL", "RC", "CR", "IR", "AR"} {
					mustSet(can, m, c[m])
				}
				var ref float64
				if p2, _ := safely(func() { ref = can.Score("environmental") }); p2 {
					return
				}
				col.count("objects compared with the canonical realisation of their effective class", 1)
				if ge != ref {
					col.violate(Violation{Property: prop, Kind: "two objects with the same effective values score differently", Version: vn,
						Input:    map[string]interface{}{"vector": key, "same_effective_values": can.Vector()},
						Expected: fmtF(ref), Observed: fmtF(ge), Extra: map[string]interface{}{"family": what},
						Replay: map[string]interface{}{"mode": "pair1", "ver": vn, "a": key, "b": can.Vector(), "method": "environmental"}})
				}
				// BaseScore / TemporalScore ignore every environmental metric
				strip := o.Clone()
				for _, m := range []string{"CR", "IR", "AR", "MAV", "MAC", "MPR", "MUI", "MS", "MC", "MI", "MA"} {
					mustSet(strip, m, "X")
				}
				var sb, st float64
				if p3, _ := safely(func() { sb = strip.Score("base"); st = strip.Score("temporal") }); p3 {
					return
				}
				col.count("Base/Temporal compared with the same object without environmental metrics", 1)
				if sb != gb || st != gt {
					col.violate(Violation{Property: prop, Kind: "BaseScore/TemporalScore depend on an environmental metric", Version: vn,
						Input:    map[string]interface{}{"vector": key, "without_environmental": strip.Vector()},
						Expected: []string{fmtF(sb), fmtF(st)}, Observed: []string{fmtF(gb), fmtF(gt)}, Extra: map[string]interface{}{"family": what}})
				}
				// undefined E/RL/RC/CR/IR/AR score as their defaults: X and the default have the same weight in the
				// stage tables (tidx / missidx rows), so the table score of the class with X already encodes it
				we := tb.expectEnv(vn, c)
				_ = we
			}
		}
		// (n) neighbour sequences (see lift40.go): a score must not depend on what was scored just before
		if prop == "C03" || prop == "C14" {
			nn := K / 4
			if nn < 6 {
				nn = 6
			}
			for k := 0; k < nn; k++ {
				o := randomObj()
				var b0, t0, e0 float64
				safely(func() { b0 = o.Score("base"); t0 = o.Score("temporal"); e0 = o.Score("environmental") })
				for _, m := range metrics {
					for _, x := range tb.vals[m] {
						o2 := o.Clone()
						mustSet(o2, m, x)
						if prop == "C03" {
							check(o2, "neighbour scored right after its neighbour")
							continue
						}
						var b1, t1, e1 float64
						p, _ := safely(func() {
							o2.Score("base")
							b1 = o.Score("base")
							o2.Score("temporal")
							t1 = o.Score("temporal")
							o2.Score("environmental")
							e1 = o.Score("environmental")
						})
						col.count("scores repeated after scoring a neighbour", 3)
						if !p && (b1 != b0 || t1 != t0 || e1 != e0) {
							col.violate(Violation{Property: prop, Kind: "a score depends on what was scored before", Version: vn,
								Input: map[string]interface{}{"vector": o.Vector(), "scored_in_between": o2.Vector()}, Expected: []string{fmtF(b0), fmtF(t0), fmtF(e0)}, Observed: []string{fmtF(b1), fmtF(t1), fmtF(e1)}})
						}
					}
				}
			}
			if prop == "C14" {
				continue
			}
		}
		// (x) no environmental metric defined at all, versus each single explicit copy of a base value / default
		if prop == "C10" || prop == "C03" || prop == "C09" {
			for k := 0; k < 6*K; k++ {
				o := randomObj()
				for _, m := range []string{"CR", "IR", "AR", "MAV", "MAC", "MPR", "MUI", "MS", "MC", "MI", "MA"} {
					mustSet(o, m, "X")
				}
				check(o, "no environmental metric defined")
				for m, mm := range tb.modOf {
					o2 := o.Clone()
					b, _ := o2.Get(m)
					mustSet(o2, mm, b)
					check(o2, "single explicit copy of a base value")
				}
				for _, m := range []string{"CR", "IR", "AR"} {
					o2 := o.Clone()
					mustSet(o2, m, tb.defaults[m])
					check(o2, "single explicit default")
				}
				// exactly one environmental metric defined, at every value (all the others undefined)
				for _, m := range []string{"CR", "IR", "AR", "MAV", "MAC", "MPR", "MUI", "MS", "MC", "MI", "MA"} {
					for _, x := range tb.vals[m][1:] {
						o2 := o.Clone()
						mustSet(o2, m, x)
						check(o2, "exactly one environmental metric defined")
					}
				}
			}
		}
		// (a) every (base, modified) pair of every overridable metric, in K random contexts
		for m, mm := range tb.modOf {
			for _, b := range tb.vals[m] {
				for _, x := range tb.vals[mm] {
					for k := 0; k < K; k++ {
						o := randomObj()
						mustSet(o, m, b)
						mustSet(o, mm, x)
						check(o, "base/modified pair "+m)
					}
				}
			}
		}
		// (b) X versus explicit default for temporal / requirement metrics
		defaults := tb.defaults // from the specification (MC_Score3x!Defaults3)
		for k := 0; k < 4*K; k++ {
			o := randomObj()
			o2 := o.Clone()
			for m, d := range defaults {
				if rng.Intn(2) == 0 {
					mustSet(o, m, "X")
					mustSet(o2, m, d)
				}
			}
			check(o, "undefined temporal/requirement metrics")
			if prop == "C10" {
				var g1, g2 float64
				if p, _ := safely(func() { g1 = o.Score("environmental"); g2 = o2.Score("environmental") }); !p {
					col.count("X compared with the explicit default", 1)
					if g1 != g2 {
						col.violate(Violation{Property: prop, Kind: "an undefined metric does not score as the specification's default", Version: vn,
							Input: map[string]interface{}{"vector": o.Vector(), "with_explicit_defaults": o2.Vector()}, Expected: fmtF(g2), Observed: fmtF(g1)})
					}
				}
			}
		}
		// (c) random full objects
		for k := 0; k < 40*K; k++ {
			check(randomObj(), "random")
		}
	}
	col.write(a.Out)
}

func init() { modes["lift3x"] = runLift3x }
