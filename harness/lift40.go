package main

// C10 (and the lifted half of C04) for v4.0: concrete objects with Modified / undefined /
// supplemental metrics. The specification resolves them to an effective class through the
// EffTable exported by TLC; two objects of the same class must score the same.

import (
	"math/rand"
	"sort"
	"strings"
)

// effective class of a real object, by table lookups only
func (tb *v4tables) classOf(o Obj) map[string]string {
	c := map[string]string{}
	for m, mm := range tb.modOf {
		b, _ := o.Get(m)
		x := ""
		if mm != "" {
			x, _ = o.Get(mm)
		}
		c[m] = tb.eff[m][b+"|"+x]
	}
	return c
}

func (tb *v4tables) canonical(c map[string]string) Obj {
	o := versions["4.0"].Zero()
	for _, m := range v4metrics {
		setEff(o, m, c[m])
	}
	return o
}

func mustSet(o Obj, m, v string) {
	if err := o.Set(m, v); err != nil {
		panic("Set(" + m + "," + v + "): " + err.Error())
	}
}

func runLift40(a *args) {
	prop := a.Prop
	col := newCollector("lift40", prop)
	tb := loadV4Tables(a.In)
	rng := rand.New(rand.NewSource(a.Seed))
	K := a.N
	if K <= 0 {
		K = 50
	}
	metrics := make([]string, 0, len(tb.allvals))
	for m := range tb.allvals {
		metrics = append(metrics, m)
	}
	sort.Strings(metrics)
	randomObj := func() Obj {
		o := versions["4.0"].Zero()
		for _, m := range metrics {
			vs := tb.allvals[m]
			mustSet(o, m, vs[rng.Intn(len(vs))])
		}
		return o
	}
	check := func(o Obj, what string) {
		c := tb.classOf(o)
		want := tb.v[tb.view(c)]
		var got float64
		p, msg := safely(func() { got = o.Score("score") })
		key := o.Vector()
		col.distinct(key, true)
		if len(col.s.Samples) < 6 {
			col.sample(map[string]interface{}{"vector": key, "family": what, "effective_class": c, "model_tenths": want})
		}
		switch prop {
		case "C09":
			col.count("realisations scored without panic", 1)
			if p {
				col.violate(Violation{Property: prop, Kind: "scoring method panicked on a reachable object", Version: "4.0", Input: key, Expected: "no panic", Observed: msg})
			}
		case "C11":
			col.count("realisations checked for one-decimal scores in range", 1)
			checkTenth(col, prop, versions["4.0"], o, "score", got, p, msg, 0)
		case "C04":
			col.count("objects compared with the model score of their effective class", 1)
			if p || got != float64(want)/10 {
				col.violate(Violation{Property: prop, Kind: "Score differs from the MacroVector algorithm", Version: "4.0",
					Input: key, Expected: float64(want) / 10, Observed: map[string]interface{}{"score": fmtF(got), "panic": msg},
					Extra:  map[string]interface{}{"family": what, "exact_tie": tb.tie[tb.view(c)]},
					Replay: map[string]interface{}{"mode": "score1", "ver": "4.0", "vector": key, "want_tenths": want}})
			}
		case "C10":
			// oracle-free: same effective values => same score as the canonical realisation
			can := tb.canonical(c)
			var ref float64
			if p2, _ := safely(func() { ref = can.Score("score") }); p2 || p {
				return
			}
			col.count("objects compared with the canonical realisation of their effective class", 1)
			if got != ref {
				col.violate(Violation{Property: prop, Kind: "two objects with the same effective values score differently", Version: "4.0",
					Input:    map[string]interface{}{"vector": key, "same_effective_values": can.Vector()},
					Expected: fmtF(ref), Observed: fmtF(got), Extra: map[string]interface{}{"family": what},
					Replay: map[string]interface{}{"mode": "pair1", "ver": "4.0", "a": key, "b": can.Vector()}})
			}
		}
	}
	// (n) neighbour sequences: score o, then every single-metric neighbour of o right after it, then o again.
	// A result that depends on what was scored just before (a memo keyed too weakly) shows exactly on neighbours.
	score := func(o Obj) (float64, bool) {
		var g float64
		p, _ := safely(func() { g = o.Score("score") })
		return g, !p
	}
	neighbours := func(o Obj) {
		base, ok := score(o)
		if !ok {
			return
		}
		for _, m := range metrics {
			for _, x := range tb.allvals[m] {
				o2 := o.Clone()
				mustSet(o2, m, x)
				switch prop {
				case "C04":
					check(o2, "neighbour scored right after its neighbour")
				case "C14":
					g2, ok2 := score(o2)
					again, ok3 := score(o)
					col.count("scores repeated after scoring a neighbour", 1)
					if ok2 && ok3 && again != base {
						col.violate(Violation{Property: prop, Kind: "Score depends on what was scored before", Version: "4.0",
							Input: map[string]interface{}{"vector": o.Vector(), "scored_in_between": o2.Vector()}, Expected: fmtF(base), Observed: fmtF(again)})
					}
					// and the neighbour itself, scored fresh after an unrelated object, gives the same value
					far := randomObj()
					score(far)
					g3, ok4 := score(o2)
					if ok2 && ok4 && g3 != g2 {
						col.violate(Violation{Property: prop, Kind: "Score depends on what was scored before", Version: "4.0",
							Input: map[string]interface{}{"vector": o2.Vector(), "scored_just_before_first_time": o.Vector(), "scored_just_before_second_time": far.Vector()}, Expected: fmtF(g3), Observed: fmtF(g2)})
					}
				case "C12":
					// monotonicity with a history: the neighbour was scored just before the pair is compared
					g2, ok2 := score(o2)
					if !ok2 {
						continue
					}
					c2 := tb.classOf(o2)
					for _, sm := range v4metrics {
						r := tb.rank[sm][c2[sm]]
						if r == 0 {
							continue
						}
						up := ""
						for val, rr := range tb.rank[sm] {
							if rr == r-1 {
								up = val
							}
						}
						if up == "" {
							continue
						}
						// raise the EFFECTIVE value one step: through the Modified metric when it is defined
						o3 := o2.Clone()
						mm := tb.modOf[sm]
						if cur, _ := o3.Get(mm); mm != "" && cur != "X" {
							if up == "S" || containsStr(tb.allvals[mm], up) {
								mustSet(o3, mm, up)
							} else {
								continue
							}
						} else if up == "S" {
							mustSet(o3, mm, "S")
						} else {
							mustSet(o3, sm, up)
						}
						g3, ok3 := score(o3)
						col.count("neighbour pairs compared after a history", 1)
						if ok3 && g3 < g2 {
							col.violate(Violation{Property: prop, Kind: "more severe value lowers the score", Version: "4.0",
								Input:    map[string]interface{}{"vector": o2.Vector(), "metric": sm, "to": up, "more_severe_vector": o3.Vector(), "scored_before": o.Vector()},
								Expected: ">= " + fmtF(g2), Observed: fmtF(g3)})
						}
						score(o2)
					}
				}
			}
		}
	}
	if prop == "C04" || prop == "C14" || prop == "C12" {
		nn := K / 4
		if nn < 6 {
			nn = 6
		}
		for k := 0; k < nn; k++ {
			neighbours(randomObj())
		}
		if prop != "C04" {
			col.write(a.Out)
			return
		}
	}
	// (p) every pair of (Modified metric, value) x (Modified metric, value), base values random
	if prop == "C10" || prop == "C04" || prop == "C09" {
		var mods []string
		for _, mm := range tb.modOf {
			if mm != "" {
				mods = append(mods, mm)
			}
		}
		sort.Strings(mods)
		for i, m1 := range mods {
			for _, m2 := range mods[i+1:] {
				for _, x1 := range tb.allvals[m1][1:] {
					for _, x2 := range tb.allvals[m2][1:] {
						o := randomObj()
						for _, mm := range mods {
							mustSet(o, mm, "X")
						}
						mustSet(o, m1, x1)
						mustSet(o, m2, x2)
						check(o, "pair of Modified metrics")
					}
				}
			}
		}
	}
	// (x) exactly one Threat / Environmental metric defined, at every value, all the others undefined (a shortcut that
	// looks at SOME of the bytes holding the optional metrics shows here), in 4*K random base contexts; and
	// (y) re-scoring after re-assignment: an object is scored, then each defined Modified metric is reset to X, one
	// after the other, and scored again; the expected class is that of a FRESH object built from the values
	// assigned (not from what the scored object says about itself - a Score() that writes into its receiver
	// answers the second time for values nobody assigned)
	if prop == "C04" || prop == "C10" || prop == "C11" || prop == "C09" {
		optional := []string{}
		for _, m := range metrics {
			if tb.allvals[m][0] == "X" {
				optional = append(optional, m)
			}
		}
		for k := 0; k < 4*K; k++ {
			o := randomObj()
			for _, m := range optional {
				mustSet(o, m, "X")
			}
			check(o, "no optional metric defined")
			for _, m := range optional {
				for _, x := range tb.allvals[m][1:] {
					o2 := o.Clone()
					mustSet(o2, m, x)
					check(o2, "exactly one optional metric defined")
				}
			}
		}
	}
	if prop == "C04" {
		for k := 0; k < 6*K; k++ {
			o := randomObj()
			asg := map[string]string{}
			for _, m := range metrics {
				asg[m], _ = o.Get(m)
			}
			if _, ok := score(o); !ok {
				continue
			}
			for _, mm := range metrics {
				if !strings.HasPrefix(mm, "M") || asg[mm] == "X" {
					continue
				}
				if o.Set(mm, "X") != nil {
					continue
				}
				asg[mm] = "X"
				fresh := versions["4.0"].Zero()
				for _, m := range metrics {
					mustSet(fresh, m, asg[m])
				}
				want := tb.v[tb.view(tb.classOf(fresh))]
				got, ok := score(o)
				col.count("objects re-scored after a Modified metric was reset", 1)
				if ok && got != float64(want)/10 {
					col.violate(Violation{Property: prop, Kind: "Score differs from the MacroVector algorithm (object scored before, then a Modified metric reset to X)", Version: "4.0",
						Input: map[string]interface{}{"values_assigned": fresh.Vector(), "reset": mm}, Expected: float64(want) / 10, Observed: fmtF(got)})
					break
				}
			}
		}
	}
	// (a) every (base, modified) pair of every overridable metric, in K random contexts
	for m, mm := range tb.modOf {
		if mm == "" {
			continue
		}
		for _, b := range tb.allvals[m] {
			for _, x := range tb.allvals[mm] {
				for k := 0; k < K; k++ {
					o := randomObj()
					mustSet(o, m, b)
					mustSet(o, mm, x)
					check(o, "base/modified pair "+m)
				}
			}
		}
	}
	// (b) undefined E / CR / IR / AR versus the explicit default, all combinations, K contexts
	for k := 0; k < 4*K; k++ {
		o := randomObj()
		for _, m := range []string{"E", "CR", "IR", "AR"} {
			if rng.Intn(2) == 0 {
				mustSet(o, m, "X")
			}
		}
		check(o, "undefined threat/requirement metrics")
	}
	// (c) no-impact family: every way of realising "all six effective impact metrics None", and
	// base all None with every subset of Modified metrics not None
	imp := []string{"VC", "VI", "VA", "SC", "SI", "SA"}
	var rec func(d int, o Obj)
	rec = func(d int, o Obj) {
		if d == len(imp) {
			check(o.Clone(), "no-impact realisations")
			return
		}
		m := imp[d]
		for _, bx := range [][2]string{{"N", "X"}, {"H", "N"}, {"L", "N"}, {"N", "N"}} {
			mustSet(o, m, bx[0])
			mustSet(o, "M"+m, bx[1])
			rec(d+1, o)
		}
	}
	for k := 0; k < 3; k++ {
		rec(0, randomObj())
	}
	for mask := 0; mask < 64; mask++ {
		for k := 0; k < 4; k++ {
			o := randomObj()
			for d, m := range imp {
				mustSet(o, m, "N")
				if mask&(1<<d) != 0 {
					vs := tb.allvals["M"+m]
					mustSet(o, "M"+m, vs[1+rng.Intn(len(vs)-1)])
				} else {
					mustSet(o, "M"+m, "X")
				}
			}
			check(o, "base impact all None, some Modified defined")
		}
	}
	// (d) supplemental metrics never matter: every supplemental metric x value on random objects
	for _, m := range []string{"S", "AU", "R", "V", "RE", "U"} {
		for _, x := range tb.allvals[m] {
			for k := 0; k < K; k++ {
				o := randomObj()
				mustSet(o, m, x)
				check(o, "supplemental "+m)
			}
		}
	}
	// (e) random full objects
	for k := 0; k < 40*K; k++ {
		check(randomObj(), "random")
	}
	col.write(a.Out)
}

func init() { modes["lift40"] = runLift40 }

func containsStr(xs []string, x string) bool {
	for _, y := range xs {
		if y == x {
			return true
		}
	}
	return false
}
