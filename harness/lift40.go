package main

// C10 (and the lifted half of C04) for v4.0: concrete objects with Modified / undefined /
// supplemental metrics. The specification resolves them to an effective class through the
// EffTable exported by TLC; two objects of the same class must score the same.

import (
	"math/rand"
	"sort"
)

// effective class of a real object, by table lookups only
func (tb *v4tables) classOf(o Obj) map[string]string {
	c := map[string]string{}
	for m, mm := range tb.modOf {
		b, _ := o.Get(m)
		x := ""
		if mm != "" {
			x, _ = o.Get(mm)
		}
		c[m] = tb.eff[m][b+"|"+x]
	}
	return c
}

func (tb *v4tables) canonical(c map[string]string) Obj {
	o := versions["4.0"].Zero()
	for _, m := range v4metrics {
		setEff(o, m, c[m])
	}
	return o
}

func mustSet(o Obj, m, v string) {
	if err := o.Set(m, v); err != nil {
		panic("Set(" + m + "," + v + "): " + err.Error())
	}
}

func runLift40(a *args) {
	prop := a.Prop
	col := newCollector("lift40", prop)
	tb := loadV4Tables(a.In)
	rng := rand.New(rand.NewSource(a.Seed))
	K := a.N
	if K <= 0 {
		K = 50
	}
	metrics := make([]string, 0, len(tb.allvals))
	for m := range tb.allvals {
		metrics = append(metrics, m)
	}
	sort.Strings(metrics)
	randomObj := func() Obj {
		o := versions["4.0"].Zero()
		for _, m := range metrics {
			vs := tb.allvals[m]
			mustSet(o, m, vs[rng.Intn(len(vs))])
		}
		return o
	}
	check := func(o Obj, what string) {
		c := tb.classOf(o)
		want := tb.v[tb.view(c)]
		var got float64
		p, msg := safely(func() { got = o.Score("score") })
		key := o.Vector()
		col.distinct(key, true)
		if len(col.s.Samples) < 6 {
			col.sample(map[string]interface{}{"vector": key, "family": what, "effective_class": c, "model_tenths": want})
		}
		switch prop {
		case "C11":
			col.count("realisations checked for one-decimal scores in range", 1)
			checkTenth(col, prop, versions["4.0"], o, "score", got, p, msg, 0)
		case "C04":
			col.count("objects compared with the model score of their effective class", 1)
			if p || got != float64(want)/10 {
				col.violate(Violation{Property: prop, Kind: "Score differs from the MacroVector algorithm", Version: "4.0",
					Input: key, Expected: float64(want) / 10, Observed: map[string]interface{}{"score": fmtF(got), "panic": msg},
					Extra:  map[string]interface{}{"family": what, "exact_tie": tb.tie[tb.view(c)]},
					Replay: map[string]interface{}{"mode": "score1", "ver": "4.0", "vector": key, "want_tenths": want}})
			}
		case "C10":
			// oracle-free: same effective values => same score as the canonical realisation
			can := tb.canonical(c)
			var ref float64
			if p2, _ := safely(func() { ref = can.Score("score") }); p2 || p {
				return
			}
			col.count("objects compared with the canonical realisation of their effective class", 1)
			if got != ref {
				col.violate(Violation{Property: prop, Kind: "two objects with the same effective values score differently", Version: "4.0",
					Input:    map[string]interface{}{"vector": key, "same_effective_values": can.Vector()},
					Expected: fmtF(ref), Observed: fmtF(got), Extra: map[string]interface{}{"family": what},
					Replay: map[string]interface{}{"mode": "pair1", "ver": "4.0", "a": key, "b": can.Vector()}})
			}
		}
	}
	// (a) every (base, modified) pair of every overridable metric, in K random contexts
	for m, mm := range tb.modOf {
		if mm == "" {
			continue
		}
		for _, b := range tb.allvals[m] {
			for _, x := range tb.allvals[mm] {
				for k := 0; k < K; k++ {
					o := randomObj()
					mustSet(o, m, b)
					mustSet(o, mm, x)
					check(o, "base/modified pair "+m)
				}
			}
		}
	}
	// (b) undefined E / CR / IR / AR versus the explicit default, all combinations, K contexts
	for k := 0; k < 4*K; k++ {
		o := randomObj()
		for _, m := range []string{"E", "CR", "IR", "AR"} {
			if rng.Intn(2) == 0 {
				mustSet(o, m, "X")
			}
		}
		check(o, "undefined threat/requirement metrics")
	}
	// (c) no-impact family: every way of realising "all six effective impact metrics None", and
	// base all None with every subset of Modified metrics not None
	imp := []string{"VC", "VI", "VA", "SC", "SI", "SA"}
	var rec func(d int, o Obj)
	rec = func(d int, o Obj) {
		if d == len(imp) {
			check(o.Clone(), "no-impact realisations")
			return
		}
		m := imp[d]
		for _, bx := range [][2]string{{"N", "X"}, {"H", "N"}, {"L", "N"}, {"N", "N"}} {
			mustSet(o, m, bx[0])
			mustSet(o, "M"+m, bx[1])
			rec(d+1, o)
		}
	}
	for k := 0; k < 3; k++ {
		rec(0, randomObj())
	}
	for mask := 0; mask < 64; mask++ {
		for k := 0; k < 4; k++ {
			o := randomObj()
			for d, m := range imp {
				mustSet(o, m, "N")
				if mask&(1<<d) != 0 {
					vs := tb.allvals["M"+m]
					mustSet(o, "M"+m, vs[1+rng.Intn(len(vs)-1)])
				} else {
					mustSet(o, "M"+m, "X")
				}
			}
			check(o, "base impact all None, some Modified defined")
		}
	}
	// (d) supplemental metrics never matter: every supplemental metric x value on random objects
	for _, m := range []string{"S", "AU", "R", "V", "RE", "U"} {
		for _, x := range tb.allvals[m] {
			for k := 0; k < K; k++ {
				o := randomObj()
				mustSet(o, m, x)
				check(o, "supplemental "+m)
			}
		}
	}
	// (e) random full objects
	for k := 0; k < 40*K; k++ {
		check(randomObj(), "random")
	}
	col.write(a.Out)
}

func init() { modes["lift40"] = runLift40 }
