package main

import (
	"flag"
	"fmt"
	"os"
)

func main() {
	if len(os.Args) < 2 {
		fmt.Fprintln(os.Stderr, "usage: vh <mode> [flags]")
		os.Exit(2)
	}
	mode := os.Args[1]
	fs := flag.NewFlagSet(mode, flag.ExitOnError)
	prop := fs.String("prop", "", "property id")
	in := fs.String("in", "", "input file (TLC output)")
	out := fs.String("out", "", "summary output file")
	seed := fs.Int64("seed", 1, "seed")
	tier := fs.String("tier", "quick", "tier")
	aux := fs.String("aux", "", "auxiliary input/output path")
	n := fs.Int("n", 0, "size parameter")
	fs.Parse(os.Args[2:])
	_ = seed
	_ = tier
	_ = aux
	_ = n
	enablePoison(mode)
	startWatchdog(mode, *prop, *out)
	switch mode {
	case "parsecases":
		runParseCases(*prop, *in, *out)
	default:
		if f, ok := modes[mode]; ok {
			f(&args{Prop: *prop, In: *in, Out: *out, Seed: *seed, Tier: *tier, Aux: *aux, N: *n})
			return
		}
		fmt.Fprintln(os.Stderr, "unknown mode", mode)
		os.Exit(2)
	}
}

type args struct {
	Prop, In, Out, Tier, Aux string
	Seed                     int64
	N                        int
}

var modes = map[string]func(*args){}
