package main

// small replay modes: Rating grid (C15), Nomenclature cases (C16), single trace event (replay)

import (
	"encoding/json"
	"fmt"
	"os"
	"runtime"
)

func runRatingGrid(a *args) {
	col := newCollector("ratinggrid", a.Prop)
	readTLCLines(a.In, "@G", func(raw []byte) {
		var g struct {
			N int    `json:"n"`
			R string `json:"r"`
		}
		if err := json.Unmarshal(raw, &g); err != nil {
			fatal("bad @G: %v", err)
		}
		x := float64(g.N) / 100
		col.distinct(fmtF(x), true)
		got := map[string]string{}
		for _, vn := range []string{"3.0", "3.1", "4.0"} {
			v := versions[vn]
			var s string
			var err error
			if p, msg := safely(func() { s, err = v.Rating(x) }); p {
				col.violate(Violation{Property: a.Prop, Kind: "Rating panicked", Version: vn, Input: fmtF(x), Expected: g.R, Observed: msg})
				continue
			}
			r := s
			if err != nil {
				if k := v.ErrKind(err); k.Kind == "bounds" && s == "" {
					r = "!bounds"
				} else {
					r = "!other:" + s + ":" + k.Kind
				}
			}
			got[vn] = r
			col.count("grid points x packages", 1)
			if r != g.R {
				col.violate(Violation{Property: a.Prop, Kind: "Rating differs from the scale", Version: vn, Input: map[string]interface{}{"score": fmtF(x), "hundredths": g.N},
					Expected: g.R, Observed: r, Replay: map[string]interface{}{"mode": "ratinggrid", "prefix": "@G", "line": g}})
			}
		}
		if len(col.s.Samples) < 3 {
			col.sample(map[string]interface{}{"score": x, "expected": g.R, "observed": got})
		}
	})
	col.write(a.Out)
}

type keptNomen struct{ got, want, vec string }

func runNomenCases(a *args) {
	col := newCollector("nomencases", a.Prop)
	v := versions["4.0"]
	var kept []keptNomen
	readTLCLines(a.In, "@N", func(raw []byte) {
		var c struct {
			O     []string `json:"o"`
			Order []string `json:"order"`
			Vec   []int    `json:"vec"`
			R     string   `json:"r"`
		}
		if err := json.Unmarshal(raw, &c); err != nil {
			fatal("bad @N: %v", err)
		}
		vec := string(bytesOf(c.Vec))
		col.distinct(vec, true)
		rep := map[string]interface{}{"mode": "nomencases", "prefix": "@N", "line": c}
		// by Set
		o := v.Zero()
		for i, m := range c.Order {
			if err := o.Set(m, c.O[i]); err != nil {
				col.count("skipped: legal Set refused (C09)", 1)
				return
			}
		}
		var got string
		p, msg := safely(func() { got = o.Nomenclature() })
		col.count("objects built by Set", 1)
		if !p {
			kept = append(kept, keptNomen{got, c.R, vec}) // the very string returned, not a copy
		}
		if p || got != c.R {
			col.violate(Violation{Property: a.Prop, Kind: "Nomenclature differs from the groups in use", Version: "4.0", Input: map[string]interface{}{"vector": vec, "built_by": "Set"},
				Expected: c.R, Observed: map[string]interface{}{"nomenclature": got, "panic": msg}, Replay: rep})
		}
		// by ParseVector of the specification's canonical string
		po, err := v.Parse(vec)
		if err != nil || po == nil {
			col.count("skipped: canonical vector not parsed (C01)", 1)
			return
		}
		p, msg = safely(func() { got = po.Nomenclature() })
		col.count("objects built by ParseVector", 1)
		if p || got != c.R {
			col.violate(Violation{Property: a.Prop, Kind: "Nomenclature differs from the groups in use", Version: "4.0", Input: map[string]interface{}{"vector": vec, "built_by": "ParseVector"},
				Expected: c.R, Observed: map[string]interface{}{"nomenclature": got, "panic": msg}, Replay: rep})
		}
		if len(col.s.Samples) < 3 {
			col.sample(map[string]interface{}{"vector": vec, "expected": c.R})
		}
	})
	// a result must still read the same after all the later calls
	for _, k := range kept {
		col.count("results re-read after all later calls", 1)
		if k.got != k.want {
			col.violate(Violation{Property: a.Prop, Kind: "Nomenclature result changed after later calls", Version: "4.0", Input: map[string]interface{}{"vector": k.vec},
				Expected: k.want, Observed: k.got})
		}
	}
	col.write(a.Out)
}

// trace1: re-record one event's call on the current tree and write it as a one-line trace
// (the driver validates it with TLC again)
func runTrace1(a *args) {
	b, err := os.ReadFile(a.In)
	if err != nil {
		fatal("%v", err)
	}
	var rec struct {
		Event event `json:"event"`
	}
	if err := json.Unmarshal(b, &rec); err != nil {
		fatal("bad trace1 recipe: %v", err)
	}
	var tabs specTables
	if err := json.Unmarshal([]byte(a.Aux), &tabs); err != nil {
		fatal("trace1: -aux must carry the spec tables: %v", err)
	}
	e := rec.Event
	r := newRecorder(a.Out+".trace", tabs)
	v := versions[e.Ver]
	mk := func() Obj {
		o := v.Zero()
		for i, m := range tabs.Order[e.Ver] {
			if i < len(e.Before) {
				o.Set(m, e.Before[i])
			}
		}
		return o
	}
	switch e.Op {
	case "parse":
		r.parse(0, e.Ver, string(bytesOf(e.B)))
	case "set":
		r.set(0, e.Ver, 1, mk(), string(bytesOf(e.A)), string(bytesOf(e.V)))
	case "get":
		r.get(0, e.Ver, 1, mk(), string(bytesOf(e.A)))
	case "vector":
		r.vector(0, e.Ver, 1, mk())
	case "score":
		r.score(0, e.Ver, 1, mk(), e.M)
	case "nomen":
		r.nomen(0, 1, mk())
	case "rating":
		var x float64
		if _, err := fmtSscan(e.Raw, &x); err != nil {
			fatal("bad raw score %q", e.Raw)
		}
		r.rating(0, e.Ver, x)
	}
	r.close()
	col := newCollector("trace1", a.Prop)
	col.s.Info["trace"] = a.Out + ".trace"
	col.write(a.Out)
}

// retrace: the events of -in (a JSON array of recorded events) are executed AGAIN, each alone, sequentially, on a
// receiver rebuilt by Set from the logged value; the summary says for each whether the recorded outcome came out
// again.  C14 uses it to tell a result that depends on the context (interleaving, history: its business) from a
// deterministic deviation from the specification (the business of the property that pins that result).
func runRetrace(a *args) {
	b, err := os.ReadFile(a.In)
	if err != nil {
		fatal("%v", err)
	}
	var evs []event
	if err := json.Unmarshal(b, &evs); err != nil {
		fatal("bad retrace input: %v", err)
	}
	var tabs specTables
	if err := json.Unmarshal([]byte(a.Aux), &tabs); err != nil {
		fatal("retrace: -aux must carry the spec tables: %v", err)
	}
	r := newRecorder(a.Out+".trace", tabs)
	col := newCollector("retrace", a.Prop)
	same := make([]bool, len(evs))
	eqI := func(x, y []int) bool { return fmt.Sprint(x) == fmt.Sprint(y) }
	eqS := func(x, y []string) bool { return fmt.Sprint(x) == fmt.Sprint(y) }
	for i, e := range evs {
		v := versions[e.Ver]
		if v == nil {
			continue
		}
		rebuilt := true
		mk := func() Obj {
			o := v.Zero()
			for j, m := range tabs.Order[e.Ver] {
				if j < len(e.Before) {
					if o.Set(m, e.Before[j]) != nil {
						rebuilt = false
					}
				}
			}
			return o
		}
		// twice, the second time after a garbage collection (pools emptied) and an unrelated failing call
		ok := true
		for round := 0; round < 2 && ok; round++ {
			if round == 1 {
				runtime.GC()
				runtime.GC()
				safely(func() { v.Parse(poisonVec[e.Ver][0] + "/ZZ:Z") })
			}
			switch e.Op {
			case "parse":
				r.parse(0, e.Ver, string(bytesOf(e.B)))
			case "set":
				r.set(0, e.Ver, 1, mk(), string(bytesOf(e.A)), string(bytesOf(e.V)))
			case "get":
				r.get(0, e.Ver, 1, mk(), string(bytesOf(e.A)))
			case "vector":
				r.vector(0, e.Ver, 1, mk())
			case "score":
				r.score(0, e.Ver, 1, mk(), e.M)
			case "nomen":
				r.nomen(0, 1, mk())
			case "rating":
				var x float64
				if _, err := fmtSscan(e.Raw, &x); err != nil {
					ok = false
					continue
				}
				r.rating(0, e.Ver, x)
			default:
				ok = false
				continue
			}
			n := r.last
			ok = rebuilt && n.OK == e.OK && n.Err.Kind == e.Err.Kind && eqI(n.Err.Abv, e.Err.Abv) && n.Val == e.Val && eqI(n.Out, e.Out) &&
				n.Tenths == e.Tenths && n.R == e.R && eqS(n.After, e.After) && (n.Pan != "") == (e.Pan != "")
		}
		same[i] = ok
		col.count("recorded events executed again alone", 1)
	}
	r.close()
	col.s.Info["reproduced"] = same
	col.write(a.Out)
}

func init() {
	modes["retrace"] = runRetrace
	modes["ratinggrid"] = runRatingGrid
	modes["nomencases"] = runNomenCases
	modes["trace1"] = runTrace1
}

func fmtSscan(s string, x *float64) (int, error) {
	switch s {
	case "+Inf":
		*x = posInf()
		return 1, nil
	case "-Inf":
		*x = -posInf()
		return 1, nil
	}
	return sscan(s, x)
}
