package main

// C14, across processes: the same set of objects (seeded random objects and all their single-metric
// neighbours, all four versions) is evaluated in a different ORDER in separate processes; every
// exported function must return the same result for the same object whatever was evaluated before it.
// (A process-wide cache with a too-weak key gives the first-come value to all colliding neighbours: only a
// different order in a fresh process shows it without an oracle.) The driver compares the dumps.

import (
	"encoding/json"
	"math/rand"
	"os"
	"sort"
)

func runNbrDump(a *args) {
	col := newCollector("nbrdump", a.Prop)
	var tabs specTables
	if err := json.Unmarshal([]byte(a.Aux), &tabs); err != nil {
		fatal("nbrdump: -aux must carry the spec tables: %v", err)
	}
	K := a.N
	if K <= 0 {
		K = 30
	}
	order := 0
	switch a.Tier {
	case "rev":
		order = 1
	case "shuffle":
		order = 2
	}
	type item struct {
		ver string
		o   Obj
	}
	var items []item
	rng := rand.New(rand.NewSource(a.Seed)) // the SAME objects in every process
	for _, vn := range verOrder {
		v := versions[vn]
		ord, vals := tabs.Order[vn], tabs.Values[vn]
		for k := 0; k < K; k++ {
			o := v.Zero()
			for _, m := range ord {
				mustSet(o, m, vals[m][rng.Intn(len(vals[m]))])
			}
			items = append(items, item{vn, o})
			for _, m := range ord {
				for _, x := range vals[m] {
					o2 := o.Clone()
					mustSet(o2, m, x)
					items = append(items, item{vn, o2})
				}
			}
		}
	}
	idx := make([]int, len(items))
	for i := range idx {
		idx[i] = i
	}
	switch order {
	case 1:
		sort.Sort(sort.Reverse(sort.IntSlice(idx)))
	case 2:
		rand.New(rand.NewSource(a.Seed+7919)).Shuffle(len(idx), func(i, j int) { idx[i], idx[j] = idx[j], idx[i] })
	}
	res := map[string][]string{}
	for _, i := range idx {
		it := items[i]
		v := versions[it.ver]
		var out []string
		p, msg := safely(func() {
			for _, sc := range v.Scores {
				out = append(out, fmtF(it.o.Score(sc)))
			}
			if it.ver != "4.0" {
				out = append(out, fmtF(it.o.Score("impact")), fmtF(it.o.Score("exploitability")))
			} else {
				out = append(out, it.o.Nomenclature())
			}
		})
		if p {
			out = append(out, "panic: "+msg)
		}
		key := it.ver + " " + it.o.Vector()
		if old, ok := res[key]; ok && !eqs(old, out) {
			// the same object evaluated twice in this very process with different results
			col.violate(Violation{Property: a.Prop, Kind: "a result depends on what was evaluated before", Version: it.ver, Input: key, Expected: old, Observed: out})
		}
		res[key] = out
		col.distinct(key, true)
	}
	f, err := os.Create(a.In) // -in names the dump file to write
	if err != nil {
		fatal("%v", err)
	}
	json.NewEncoder(f).Encode(res)
	f.Close()
	col.s.Info["objects"] = len(res)
	col.write(a.Out)
}

func init() { modes["nbrdump"] = runNbrDump }
