package main

// M1 history edges for the object family: C02, C07, C09 and the Get/Set clauses of C18.
// TLC (model MC_Object) prints every state ("@S") and every transition ("@E": from-state,
// call, expected result, to-state). The harness keeps ONE real object per model state and
// walks the edges breadth-first from the zero value: apply the call to a copy of the real
// object of the from-state, compare the result, project the real object with all Gets and
// compare with the to-state; when the to-state was reached before through another history
// the two real objects must be == .

import (
	"encoding/json"
	"math/rand"
	"strings"
)

type objEdge struct {
	Ver string    `json:"ver"`
	F   []string  `json:"f"`
	Op  string    `json:"op"`
	A   []int     `json:"a"`
	V   []int     `json:"v"`
	B   []int     `json:"b"`
	Seq [][][]int `json:"seq"`
	OK  bool      `json:"ok"`
	Err errJ      `json:"err"`
	T   []string  `json:"t"`
	Val string    `json:"val"`
}

type objState struct {
	Ver   string   `json:"ver"`
	O     []string `json:"o"`
	Vec   []int    `json:"vec"`
	Order []string `json:"order"`
}

var heldObjErrs []heldErr

// projection of the previously round-tripped object, per version (C02 history probe)
var prevProj = map[string][]string{}

func skey(ver string, o []string) string { return ver + "|" + strings.Join(o, ",") }

func project(o Obj, order []string) []string {
	r := make([]string, len(order))
	for i, m := range order {
		v, err := o.Get(m)
		if err != nil {
			v = "!err"
		}
		r[i] = v
	}
	return r
}

func eqs(a, b []string) bool {
	if len(a) != len(b) {
		return false
	}
	for i := range a {
		if a[i] != b[i] {
			return false
		}
	}
	return true
}

func runObjEdges(a *args) {
	prop := a.Prop
	col := newCollector("objedges", prop)
	order := map[string][]string{}
	edges := map[string][]*objEdge{}
	nEdges := 0
	modelStates := map[string]*objState{}
	readTLCLines(a.In, "@", func(raw []byte) {
		switch raw[0] {
		case 'S':
			var s objState
			if err := json.Unmarshal(raw[1:], &s); err != nil {
				fatal("bad @S line: %v", err)
			}
			order[s.Ver] = s.Order
			modelStates[skey(s.Ver, s.O)] = &s
		case 'E':
			var e objEdge
			if err := json.Unmarshal(raw[1:], &e); err != nil {
				fatal("bad @E line: %v: %.300s", err, raw)
			}
			k := skey(e.Ver, e.F)
			edges[k] = append(edges[k], &e)
			nEdges++
		}
	})
	rng := rand.New(rand.NewSource(a.Seed))
	real := map[string]Obj{}
	var keys []string
	reachedEdges := 0
	for _, vn := range verOrder {
		ord, ok := order[vn]
		if !ok {
			continue
		}
		v := versions[vn]
		z := v.Zero()
		zk := skey(vn, project(z, ord))
		real[zk] = z
		queue := []string{zk}
		keys = append(keys, zk)
		for len(queue) > 0 {
			fk := queue[0]
			queue = queue[1:]
			from := real[fk]
			for _, e := range edges[fk] {
				reachedEdges++
				to := walkEdge(prop, v, ord, from, e, col)
				if to == nil {
					continue
				}
				tk := skey(vn, e.T)
				if old, ok := real[tk]; ok {
					col.count("same abstract state reached by two histories: == compared", 1)
					if (prop == "C07" || prop == "C02") && !old.Same(to) {
						col.violate(Violation{Property: prop, Kind: "objects with equal metric values are not ==", Version: vn,
							Input: edgeRec(e), Expected: "==", Observed: "!=", Replay: edgeReplay(e)})
					}
				} else {
					real[tk] = to
					keys = append(keys, tk)
					queue = append(queue, tk)
					if prop == "C07" && len(keys) > 1 {
						// different abstract states must differ under ==
						ok2 := keys[rng.Intn(len(keys)-1)]
						if strings.HasPrefix(ok2, vn+"|") && ok2 != tk {
							col.count("different abstract states: != compared", 1)
							if real[ok2].Same(to) {
								col.violate(Violation{Property: prop, Kind: "objects with different metric values are ==", Version: vn,
									Input: edgeRec(e), Expected: "!=", Observed: "=="})
							}
						}
					}
					checkState(prop, v, ord, tk, to, modelStates[tk], col, e)
				}
			}
		}
	}
	recheckHeld(prop, heldObjErrs, col)
	col.s.Info["edges"] = nEdges
	col.s.Info["edges_walked"] = reachedEdges
	col.s.Info["model_states"] = len(modelStates)
	col.s.Info["real_objects"] = len(real)
	col.s.Evaluations = int64(reachedEdges)
	col.s.Distinct = int64(len(real))
	col.s.Nontrivial = int64(len(real))
	col.write(a.Out)
}

func edgeRec(e *objEdge) map[string]interface{} {
	r := map[string]interface{}{"from": e.F, "op": e.Op}
	switch e.Op {
	case "set":
		r["abv"] = string(bytesOf(e.A))
		r["value"] = string(bytesOf(e.V))
	case "get":
		r["abv"] = string(bytesOf(e.A))
	case "parse":
		r["vector"] = string(bytesOf(e.B))
	case "setseq":
		r["calls"] = len(e.Seq)
	}
	return r
}

func edgeReplay(e *objEdge) map[string]interface{} {
	return map[string]interface{}{"mode": "objedges", "prefix": "@E", "line": e}
}

// walkEdge applies one model transition to a copy of the real from-object. Returns the real
// to-object (nil when the call is an observation or could not be followed).
func walkEdge(prop string, v *Ver, ord []string, from Obj, e *objEdge, col *collector) Obj {
	vn := v.Name
	o := from.Clone()
	viol := func(kind string, exp, obs interface{}) {
		col.violate(Violation{Property: prop, Kind: kind, Version: vn, Input: edgeRec(e), Expected: exp, Observed: obs, Replay: edgeReplay(e)})
	}
	wantErr := ErrK{e.Err.Kind, string(bytesOf(e.Err.Abv))}
	switch e.Op {
	case "get":
		var got string
		var err error
		p, msg := safely(func() { got, err = o.Get(string(bytesOf(e.A))) })
		col.count("Get calls compared", 1)
		if p {
			if prop == "C09" {
				viol("Get panicked", "no panic", msg)
			}
			return nil
		}
		switch prop {
		case "C09":
			if (err == nil) != e.OK {
				viol("Get accepts/refuses an abbreviation differently from the specification", map[string]interface{}{"known_metric": e.OK}, map[string]interface{}{"error": v.ErrKind(err), "value": got})
			} else if e.OK && got != e.Val {
				viol("Get returns another value than the object holds", e.Val, got)
			}
		case "C18":
			if !e.OK && err != nil {
				k := v.ErrKind(err)
				if k != wantErr {
					viol("Get: error value differs from the documented one", wantErr, k)
				}
				heldObjErrs = append(heldObjErrs, heldErr{err, k, vn, bytesOf(e.A)})
			}
			if !e.OK && err == nil {
				viol("Get: unknown abbreviation reported with no error", wantErr, ErrK{"none", ""})
			}
		}
		if !from.Same(o) && (prop == "C07" || prop == "C09") {
			viol("Get changed the object", "unchanged", "changed")
		}
		return nil
	case "set":
		var err error
		p, msg := safely(func() { err = o.Set(string(bytesOf(e.A)), string(bytesOf(e.V))) })
		col.count("Set calls compared", 1)
		if p {
			if prop == "C09" || prop == "C07" {
				viol("Set panicked", "no panic", msg)
			}
			return nil
		}
		got := project(o, ord)
		if (prop == "C02" || prop == "C09" || prop == "C11") && !from.Same(o) && !eqs(got, e.T) {
			// a real object the model does not predict is still an object obtained through the public API:
			// the per-object obligations hold for it too
			checkState(prop, v, ord, skey(vn, got)+" (not the model's to-state)", o, nil, col, e)
		}
		switch prop {
		case "C09":
			if (err == nil) != e.OK {
				viol("Set accepts/refuses differently from the specification", map[string]interface{}{"legal": e.OK, "error": wantErr}, map[string]interface{}{"error": v.ErrKind(err)})
				return nil
			}
			if !eqs(got, e.T) {
				viol("object after Set is not the specified one", e.T, got)
				return nil
			}
		case "C18":
			if !e.OK && err != nil {
				k := v.ErrKind(err)
				if k != wantErr {
					viol("Set: error value differs from the documented one", wantErr, k)
				}
				heldObjErrs = append(heldObjErrs, heldErr{err, k, vn, bytesOf(e.A)})
			}
			if !e.OK && err == nil {
				viol("Set: illegal call reported with no error", wantErr, ErrK{"none", ""})
			}
			if (err == nil) != e.OK || !eqs(got, e.T) {
				return nil
			}
		default: // C07, C02
			if (err == nil) != e.OK {
				if prop == "C07" {
					// whether Set must accept this pair is C09's business; C07 still requires the frame
					if err != nil && !from.Same(o) {
						viol("failed Set changed the object", "unchanged", got)
					}
					if err == nil {
						// Set reported success: then Get(m) must return v and nothing else may have changed
						abv, val := string(bytesOf(e.A)), string(bytesOf(e.V))
						bad := false
						for i, m := range ord {
							if m == abv {
								bad = bad || got[i] != val
							} else {
								bad = bad || got[i] != e.F[i]
							}
						}
						if g, gerr := o.Get(abv); gerr != nil || g != val {
							bad = true
						}
						if bad {
							viol("Set reported success but Get(m) != v or another metric changed", map[string]interface{}{abv: val, "others": "unchanged"}, got)
						}
					}
				}
				return nil
			}
			if !eqs(got, e.T) {
				if prop == "C07" {
					kind := "successful Set: wrong target value or another metric changed"
					if !e.OK {
						kind = "failed Set changed the object"
					}
					viol(kind, e.T, got)
				}
				return nil
			}
			if prop == "C07" && !e.OK && !from.Same(o) {
				viol("failed Set changed the object under ==", "==", "!=")
				return nil
			}
		}
		return o
	case "setseq":
		for _, c := range e.Seq {
			var err error
			p, _ := safely(func() { err = o.Set(string(bytesOf(c[0])), string(bytesOf(c[1]))) })
			if p || err != nil {
				col.count("skipped: legal Set refused while building a base object (C09)", 1)
				return nil
			}
		}
		col.count("Set chains replayed", 1)
		got := project(o, ord)
		if (prop == "C02" || prop == "C09" || prop == "C11") && !eqs(got, e.T) {
			checkState(prop, v, ord, skey(vn, got)+" (not the model's to-state)", o, nil, col, e)
		}
		if !eqs(got, e.T) {
			if prop == "C07" {
				viol("object after a chain of successful Sets is not the specified one", e.T, got)
			}
			return nil
		}
		return o
	case "parse":
		var po Obj
		var err error
		p, _ := safely(func() { po, err = v.Parse(string(bytesOf(e.B))) })
		if p || err != nil || po == nil {
			col.count("skipped: well-formed vector not parsed (C01)", 1)
			return nil
		}
		col.count("base objects loaded by ParseVector", 1)
		if !eqs(project(po, ord), e.T) {
			col.count("skipped: parsed object has other values than written (C06)", 1)
			return nil
		}
		return po
	}
	fatal("unknown edge op %q", e.Op)
	return nil
}

// checkState runs the per-state obligations on a newly reached real object.
func checkState(prop string, v *Ver, ord []string, key string, o Obj, ms *objState, col *collector, via *objEdge) {
	vn := v.Name
	viol := func(kind string, exp, obs interface{}) {
		col.violate(Violation{Property: prop, Kind: kind, Version: vn, Input: map[string]interface{}{"object": key, "reached_by": edgeRec(via)}, Expected: exp, Observed: obs, Replay: edgeReplay(via)})
	}
	if len(col.s.Samples) < 6 {
		col.sample(map[string]interface{}{"state": key, "reached_by": edgeRec(via)})
	}
	switch prop {
	case "C11":
		// every scoring method of every object reached through the API: one decimal, in range, no panic
		for _, sc := range v.Scores {
			var g float64
			p, msg := safely(func() { g = o.Score(sc) })
			lo := 0
			if vn == "2.0" && sc == "environmental" {
				lo = -2
			}
			col.count("scores of reached objects checked", 1)
			if k, ok := isTenth(g, lo, 100); p || !ok {
				viol("score of a reachable object is not a one-decimal number within the scale", "k/10 within the scale", map[string]interface{}{"method": sc, "score": fmtF(g), "k": k, "panic": msg})
			} else if v.Rating != nil && k >= 0 {
				if _, err := v.Rating(g); err != nil {
					viol("Rating rejects a score the package produced", "nil error", map[string]interface{}{"method": sc, "score": fmtF(g)})
				}
			}
		}
	case "C02":
		var vec string
		if p, msg := safely(func() { vec = o.Vector() }); p {
			viol("Vector() panicked", "no panic", msg)
			return
		}
		var back Obj
		var err error
		if p, msg := safely(func() { back, err = v.Parse(vec) }); p {
			viol("ParseVector(Vector()) panicked", "no panic", msg)
			return
		}
		col.count("Vector() -> ParseVector round trips", 1)
		if err != nil || back == nil {
			viol("Vector() output rejected by the same version's ParseVector", "accepted", map[string]interface{}{"vector": vec, "error": v.ErrKind(err)})
			return
		}
		if !back.Same(o) {
			viol("ParseVector(Vector()) != original object", map[string]interface{}{"vector": vec, "values": project(o, ord)}, project(back, ord))
			return
		}
		if !eqs(project(back, ord), project(o, ord)) {
			viol("ParseVector(Vector()) differs from the original on some Get", project(o, ord), project(back, ord))
			return
		}
		// history: edit the object the parser returned (give it the values of the previously visited object),
		// then round-trip the SAME original again
		mine := project(o, ord)
		if prev, ok := prevProj[vn]; ok {
			for i, m := range ord {
				back.Set(m, prev[i])
			}
			var back2 Obj
			var err2 error
			if p, _ := safely(func() { back2, err2 = v.Parse(o.Vector()) }); !p {
				col.count("round trips repeated after the first parsed copy was edited", 1)
				if err2 != nil || back2 == nil || !back2.Same(o) || !eqs(project(back2, ord), mine) {
					var got []string
					if back2 != nil {
						got = project(back2, ord)
					}
					viol("ParseVector(Vector()) != original object (after the result of an earlier parse of the same string was edited)", mine, got)
				}
			}
		}
		prevProj[vn] = mine
	case "C09":
		// every Get legal and equal to the model (already compared); Vector() grammatical; scoring does not panic
		var vec string
		if p, msg := safely(func() { vec = o.Vector() }); p {
			viol("Vector() panicked", "no panic", msg)
			return
		}
		if ms != nil && string(bytesOf(ms.Vec)) != vec {
			// Not the model's canonical string (which TLC checked to be well formed). The canonical spelling
			// itself is C08's business; C09 only needs a grammatical vector: ask the version's own parser.
			col.count("Vector() differs from the model's canonical string", 1)
			var err error
			if p, _ := safely(func() { _, err = v.Parse(vec) }); p || err != nil {
				viol("Vector() of a reachable object is not a grammatical vector", string(bytesOf(ms.Vec)), vec)
			}
		}
		for _, sc := range v.Scores {
			if p, msg := safely(func() { _ = o.Score(sc) }); p {
				viol("scoring method panicked on a reachable object", sc+": no panic", msg)
			}
		}
		for _, sc := range []string{"impact", "exploitability"} {
			if vn == "4.0" {
				break
			}
			if p, msg := safely(func() { _ = o.Score(sc) }); p {
				viol("scoring method panicked on a reachable object", sc+": no panic", msg)
			}
		}
		col.count("reachable objects checked for well-formedness", 1)
	}
}

func runZero(a *args) {
	// prints what the zero values denote, for the driver to generate ZeroObs.tla
	out := map[string]map[string]string{}
	var orders map[string][]string
	if err := json.Unmarshal([]byte(a.Aux), &orders); err != nil {
		fatal("zero: -aux must be a JSON map version -> metric order: %v", err)
	}
	for vn, ord := range orders {
		z := versions[vn].Zero()
		m := map[string]string{}
		for _, x := range ord {
			v, err := z.Get(x)
			if err != nil {
				v = "!err"
			}
			m[x] = v
		}
		out[vn] = m
	}
	col := newCollector("zero", a.Prop)
	col.s.Info["zero"] = out
	col.write(a.Out)
}

func init() {
	modes["objedges"] = runObjEdges
	modes["zero"] = runZero
}
