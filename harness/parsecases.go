package main

// M1 call cases for the parser family: C01, C06, C08, C13, C18.
// Every "@C" line printed by TLC (model MC_Parse) carries one input, the
// verdict of the declarative grammar for all four versions, the meaning and
// canonical string for the accepting version and the catalogued error. The
// harness gives the bytes to the four real parsers and compares.

import (
	"encoding/json"
	"runtime"
	"sort"
	"sync"
)

type errJ struct {
	Kind string `json:"kind"`
	Abv  []int  `json:"abv"`
}

type parseCase struct {
	Ver string `json:"ver"`
	Tag struct {
		F string `json:"f"`
		K int    `json:"k"`
	} `json:"tag"`
	B     []int           `json:"b"`
	WF    map[string]bool `json:"wf"`
	OK    bool            `json:"ok"`
	Err   errJ            `json:"err"`
	Exp   errJ            `json:"exp"`
	Known bool            `json:"known"`
	Obj   json.RawMessage `json:"obj"`
	Canon []int           `json:"canon"`
}

// strings returned by Vector() (C08), kept uncopied and re-read after all later calls
type keptVec struct{ got, want, ver string }

var keptVectors []keptVec

// values of the previously accepted case, per version (used to edit a parsed object before re-parsing)
var lastAccepted = map[string]map[string]string{}

type heldErr struct {
	err   error
	first ErrK
	ver   string
	in    []byte
}

func runParseCases(prop, file, out string) {
	col := newCollector("parsecases", prop)
	cases := make(chan parseCase, 1024)
	var wg sync.WaitGroup
	var heldMu sync.Mutex
	var held []heldErr
	nw := runtime.GOMAXPROCS(0)
	if prop == "C01" || prop == "C13" || prop == "C06" || prop == "C08" || prop == "C14" {
		// these properties are also probed with calls made IMMEDIATELY AFTER an accepted parse (header
		// swap, edit-then-reparse): one worker, so that "immediately after" means what it says
		nw = 1
	}
	for w := 0; w < nw; w++ {
		wg.Add(1)
		go func() {
			defer wg.Done()
			var local []heldErr
			for c := range cases {
				checkParseCase(prop, &c, col, &local)
				if len(local) >= 4096 {
					recheckHeld(prop, local, col)
					local = local[:0]
				}
			}
			heldMu.Lock()
			held = append(held, local...)
			heldMu.Unlock()
		}()
	}
	n := readTLCLines(file, "@C", func(raw []byte) {
		var c parseCase
		if err := json.Unmarshal(raw, &c); err != nil {
			fatal("bad @C line: %v: %.300s", err, raw)
		}
		cases <- c
	})
	close(cases)
	wg.Wait()
	// errors must still say the same thing after everything else has run
	recheckHeld(prop, held, col)
	for _, k := range keptVectors {
		col.count("Vector() strings re-read after all later calls", 1)
		if k.got != k.want {
			col.violate(Violation{Property: prop, Kind: "canonical string changed after later calls", Version: k.ver, Input: inputRec([]byte(k.want)), Expected: k.want, Observed: k.got})
		}
	}
	col.s.Info["lines"] = n
	col.write(out)
}

func recheckHeld(prop string, held []heldErr, col *collector) {
	if prop != "C18" && prop != "C14" {
		return
	}
	for _, h := range held {
		now := versions[h.ver].ErrKind(h.err)
		col.count("error re-inspected later", 1)
		if now != h.first {
			col.violate(Violation{Property: prop, Kind: "error value changed after it was returned", Version: h.ver,
				Input: inputRec(h.in), Expected: h.first, Observed: now})
		}
	}
}

func checkParseCase(prop string, c *parseCase, col0 *collector, held *[]heldErr) {
	col := &replayCol{col0, map[string]interface{}{"mode": "parsecases", "prefix": "@C", "line": c}}
	b := bytesOf(c.B)
	s := string(b)
	nontrivial := c.Tag.F != "major" && c.Tag.F != "minor"
	fresh := col0.distinct(s, nontrivial)
	if fresh {
		col.sample(map[string]interface{}{"ver": c.Ver, "tag": c.Tag.F, "input": s, "wf": c.WF, "expected_error": c.Exp.Kind})
	}
	type res struct {
		obj Obj
		err error
		pan string
	}
	results := map[string]res{}
	targets := verOrder
	if prop == "C06" || prop == "C08" || prop == "C18" || prop == "C14" {
		targets = []string{c.Ver}
	}
	for _, vn := range targets {
		v := versions[vn]
		var r res
		p, msg := safely(func() { r.obj, r.err = v.Parse(s) })
		if p {
			r.pan = msg
		}
		results[vn] = r
	}
	headers := map[string]string{"2.0": "", "3.0": "CVSS:3.0/", "3.1": "CVSS:3.1/", "4.0": "CVSS:4.0"}
	// header of version vn replaced by the header of every other version: never well formed for vn
	swapped := func(vn string) []string {
		var r []string
		if len(s) < len(headers[vn]) || s[:len(headers[vn])] != headers[vn] {
			return r
		}
		body := s[len(headers[vn]):]
		for _, w := range verOrder {
			if w != vn && headers[w] != headers[vn] {
				r = append(r, headers[w]+body)
			}
		}
		return r
	}
	// edit the object a parse returned (make it hold the values of another object), then parse the same
	// string again: the second result must be what the string says, whatever was done to the first
	reparseAfterEdit := func(vn string, o Obj, want map[string]string) (Obj, bool) {
		last := lastAccepted[vn]
		lastAccepted[vn] = want
		if last == nil || o == nil {
			return nil, false
		}
		for m, x := range last {
			o.Set(m, x)
		}
		var o2 Obj
		var err error
		if p, _ := safely(func() { o2, err = versions[vn].Parse(s) }); p || err != nil || o2 == nil {
			return nil, true
		}
		return o2, true
	}
	switch prop {
	case "C14":
		// same argument, same result: accept/reject, error value and object, on repeated calls
		v := versions[c.Ver]
		first := results[c.Ver]
		for rep := 0; rep < 3; rep++ {
			var o2 Obj
			var e2 error
			p2, _ := safely(func() { o2, e2 = v.Parse(s) })
			col.count("repeated calls compared with the first", 1)
			same := (p2 == (first.pan != "")) && v.ErrKind(e2) == v.ErrKind(first.err) && (o2 == nil) == (first.obj == nil)
			if same && o2 != nil {
				same = o2.Same(first.obj)
			}
			if !same {
				col.violate(Violation{Property: prop, Kind: "the same call returns different results when repeated", Version: c.Ver, Input: inputRec(b),
					Expected: map[string]interface{}{"error": v.ErrKind(first.err)}, Observed: map[string]interface{}{"error": v.ErrKind(e2)}})
				break
			}
		}
	case "C01":
		for _, vn := range targets {
			if r := results[vn]; r.pan == "" && r.err == nil && c.WF[vn] {
				for _, s2 := range swapped(vn) {
					var e2 error
					p2, _ := safely(func() { _, e2 = versions[vn].Parse(s2) })
					col.count("header-swapped string right after an accepted parse", 1)
					if p2 || e2 == nil {
						col.violate(Violation{Property: prop, Kind: "accept/reject differs from the grammar", Version: vn, Input: inputRec([]byte(s2)),
							Expected: map[string]interface{}{"well_formed": false}, Observed: map[string]interface{}{"accepted": e2 == nil, "after_parsing": s}})
					}
				}
			}
		}
		for _, vn := range targets {
			r := results[vn]
			col.count("parser verdicts", 1)
			if r.pan != "" {
				col.violate(Violation{Property: prop, Kind: "ParseVector panicked", Version: vn, Input: inputRec(b), Expected: "no panic", Observed: r.pan})
				continue
			}
			acc := r.err == nil
			if acc != c.WF[vn] {
				col.violate(Violation{Property: prop, Kind: "accept/reject differs from the grammar", Version: vn, Input: inputRec(b),
					Expected: map[string]interface{}{"well_formed": c.WF[vn]}, Observed: map[string]interface{}{"accepted": acc, "error": versions[vn].ErrKind(r.err)},
					Extra: map[string]interface{}{"tag": c.Tag.F, "spine_version": c.Ver}})
				continue
			}
			if acc && r.obj == nil {
				col.violate(Violation{Property: prop, Kind: "accepted with nil object", Version: vn, Input: inputRec(b), Expected: "non-nil object", Observed: "nil"})
			}
			if !acc && r.obj != nil {
				col.violate(Violation{Property: prop, Kind: "rejected with non-nil object", Version: vn, Input: inputRec(b), Expected: "nil object", Observed: "non-nil"})
			}
		}
	case "C13":
		for _, vn := range targets {
			if r := results[vn]; r.pan == "" && r.err == nil {
				for _, s2 := range swapped(vn) {
					var e2 error
					p2, _ := safely(func() { _, e2 = versions[vn].Parse(s2) })
					col.count("header-swapped string right after an accepted parse", 1)
					if !p2 && e2 == nil {
						col.violate(Violation{Property: prop, Kind: "string with another version's header accepted", Version: vn, Input: inputRec([]byte(s2)),
							Expected: "rejected", Observed: map[string]interface{}{"accepted": true, "after_parsing": s}})
					}
				}
			}
		}
		var accs []string
		for _, vn := range targets {
			if r := results[vn]; r.pan == "" && r.err == nil {
				accs = append(accs, vn)
			}
		}
		col.count("strings given to all four parsers", 1)
		if len(accs) > 1 {
			col.violate(Violation{Property: prop, Kind: "string accepted by more than one version", Version: accs[0], Input: inputRec(b), Expected: "at most one acceptor", Observed: accs})
		}
		// Vector() of the parsed object belongs to its own version only
		for _, vn := range accs {
			o := results[vn].obj
			if o == nil {
				continue
			}
			var vec string
			if p, _ := safely(func() { vec = o.Vector() }); p {
				continue
			}
			var acc2 []string
			for _, v2 := range verOrder {
				var e error
				p, _ := safely(func() { _, e = versions[v2].Parse(vec) })
				if !p && e == nil {
					acc2 = append(acc2, v2)
				}
			}
			col.count("Vector() outputs given to all four parsers", 1)
			if len(acc2) != 1 || acc2[0] != vn {
				col.violate(Violation{Property: prop, Kind: "Vector() output not accepted by exactly its own version", Version: vn, Input: inputRec([]byte(vec)), Expected: []string{vn}, Observed: acc2})
			}
		}
	case "C06":
		if !c.WF[c.Ver] {
			return
		}
		r := results[c.Ver]
		if r.pan != "" || r.err != nil || r.obj == nil {
			col.count("skipped: accepted by the grammar but not parsed (C01)", 1)
			return
		}
		var want map[string]string
		if err := json.Unmarshal(c.Obj, &want); err != nil {
			fatal("bad obj in @C line: %v", err)
		}
		keys := make([]string, 0, len(want))
		for m := range want {
			keys = append(keys, m)
		}
		sort.Strings(keys)
		compare := func(o Obj, kind string) {
			for _, m := range keys {
				var got string
				var e error
				p, msg := safely(func() { got, e = o.Get(m) })
				col.count("Get compared with the written value", 1)
				if p || e != nil || got != want[m] {
					col.violate(Violation{Property: prop, Kind: kind, Version: c.Ver, Input: inputRec(b),
						Expected: map[string]string{m: want[m]}, Observed: map[string]interface{}{"value": got, "error": versions[c.Ver].ErrKind(e), "panic": msg}})
				}
			}
		}
		compare(r.obj, "Get after ParseVector differs from the vector text")
		// the parsed object keeps meaning what the vector says while it is only READ: after Vector(), every scoring
		// method and Nomenclature() - none of which may write into its receiver - the Gets are compared again
		safely(func() {
			r.obj.Vector()
			for _, sc := range versions[c.Ver].Scores {
				r.obj.Score(sc)
			}
			if c.Ver == "4.0" {
				r.obj.Nomenclature()
			}
		})
		compare(r.obj, "Get differs from the vector text after the parsed object was serialised and scored (read-only calls)")
		if o2, ok := reparseAfterEdit(c.Ver, r.obj, want); ok && o2 != nil {
			compare(o2, "Get after ParseVector differs from the vector text (parsed again after the first result was edited)")
		}
	case "C08":
		if !c.WF[c.Ver] {
			return
		}
		r := results[c.Ver]
		if r.pan != "" || r.err != nil || r.obj == nil {
			col.count("skipped: accepted by the grammar but not parsed (C01)", 1)
			return
		}
		want := string(bytesOf(c.Canon))
		var got string
		p, msg := safely(func() { got = r.obj.Vector() })
		col.count("canonical strings compared", 1)
		if p || got != want {
			col.violate(Violation{Property: prop, Kind: "parse-then-serialise is not the canonical form", Version: c.Ver, Input: inputRec(b),
				Expected: want, Observed: map[string]interface{}{"vector": got, "panic": msg}})
			return
		}
		kept := got
		// twice = once
		o2, e2 := versions[c.Ver].Parse(got)
		if e2 != nil || o2 == nil {
			col.violate(Violation{Property: prop, Kind: "canonical form is rejected", Version: c.Ver, Input: inputRec([]byte(got)), Expected: "accepted", Observed: versions[c.Ver].ErrKind(e2)})
			return
		}
		var got2 string
		safely(func() { got2 = o2.Vector() })
		if got2 != want {
			col.violate(Violation{Property: prop, Kind: "parse-then-serialise twice differs from once", Version: c.Ver, Input: inputRec(b), Expected: want, Observed: got2})
		}
		if c.Obj != nil {
			var wantObj map[string]string
			if json.Unmarshal(c.Obj, &wantObj) == nil {
				if o3, ok := reparseAfterEdit(c.Ver, r.obj, wantObj); ok && o3 != nil {
					var got3 string
					safely(func() { got3 = o3.Vector() })
					col.count("canonical strings compared after edit-then-reparse", 1)
					if got3 != want {
						col.violate(Violation{Property: prop, Kind: "parse-then-serialise is not the canonical form (parsed again after the first result was edited)", Version: c.Ver, Input: inputRec(b), Expected: want, Observed: got3})
					}
				}
			}
		}
		keptVectors = append(keptVectors, keptVec{kept, want, c.Ver}) // the very string returned; re-read at the end of the run
		if kept != want {                                             // the first string must not have been rewritten by the later calls
			col.violate(Violation{Property: prop, Kind: "canonical string changed after later calls", Version: c.Ver, Input: inputRec(b), Expected: want, Observed: kept})
		}
	case "C18":
		if c.Exp.Kind == "uncat" {
			// not a catalogued single defect: agreement with the operational model is information only
			r := results[c.Ver]
			if r.pan == "" {
				got := versions[c.Ver].ErrKind(r.err)
				if got.Kind == c.Err.Kind && got.Abv == string(bytesOf(c.Err.Abv)) {
					col.count("uncatalogued inputs: same error as the operational model (info)", 1)
				} else {
					col.count("uncatalogued inputs: other error than the operational model (info)", 1)
				}
			}
			return
		}
		r := results[c.Ver]
		if r.pan != "" {
			col.count("skipped: panic (C01)", 1)
			return
		}
		got := versions[c.Ver].ErrKind(r.err)
		want := ErrK{c.Exp.Kind, string(bytesOf(c.Exp.Abv))}
		if r.err == nil {
			// the property says this defect "yields" the documented error: no error at all is not it
			col.count("catalogued single defects compared", 1)
			col.violate(Violation{Property: prop, Kind: "catalogued defect reported with no error", Version: c.Ver, Input: inputRec(b),
				Expected: want, Observed: got, Extra: map[string]interface{}{"defect": c.Tag.F, "position": c.Tag.K}})
			return
		}
		col.count("catalogued single defects compared", 1)
		*held = append(*held, heldErr{r.err, got, c.Ver, b})
		if got != want {
			col.violate(Violation{Property: prop, Kind: "error value differs from the documented one", Version: c.Ver, Input: inputRec(b),
				Expected: want, Observed: got,
				Extra: map[string]interface{}{"defect": c.Tag.F, "position": c.Tag.K, "after_complete_v2_environmental_group": c.Known}})
		}
	default:
		fatal("parsecases: unsupported property %s", prop)
	}
}

// replayCol attaches the replay recipe to every violation raised for one case.
type replayCol struct {
	*collector
	recipe map[string]interface{}
}

func (r *replayCol) violate(v Violation) {
	v.Replay = r.recipe
	r.collector.violate(v)
}
