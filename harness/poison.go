package main

// "Poison" histories (C14 seen from every other property): before a checked ParseVector call the same
// parser is given a vector that defines EVERY metric with a non-default value and fails on its last
// element (two alternating value sets), and from time to time a battery of failing calls - every element
// with an illegal value in turn, Get / Set on an unknown abbreviation, Set with an illegal value - whose
// errors are all rendered with Error().  None of this may influence the checked call: recycled parse
// objects that keep a metric of the rejected vector, error messages that sort a shared table while being
// formatted, scratch state left by an error path are exposed to every check that follows.  The vectors
// are harness data, not an oracle: nothing is expected from the poison calls themselves.

import (
	"os"
	"strings"
	"sync/atomic"
)

var poisonVec = map[string][2]string{
	"2.0": {"AV:N/AC:L/Au:N/C:P/I:P/A:P/E:U/RL:OF/RC:UC/CDP:L/TD:L/CR:L/IR:L/AR:L",
		"AV:A/AC:M/Au:S/C:C/I:C/A:C/E:POC/RL:TF/RC:UR/CDP:MH/TD:M/CR:H/IR:H/AR:H"},
	"3.0": {"CVSS:3.0/AV:A/AC:H/PR:L/UI:R/S:C/C:H/I:H/A:H/E:U/RL:O/RC:U/CR:L/IR:L/AR:L/MAV:P/MAC:H/MPR:H/MUI:R/MS:C/MC:L/MI:L/MA:L",
		"CVSS:3.0/AV:L/AC:L/PR:H/UI:N/S:U/C:L/I:L/A:L/E:P/RL:T/RC:R/CR:H/IR:H/AR:H/MAV:A/MAC:L/MPR:L/MUI:N/MS:U/MC:H/MI:H/MA:H"},
	"3.1": {"CVSS:3.1/AV:A/AC:H/PR:L/UI:R/S:C/C:H/I:H/A:H/E:U/RL:O/RC:U/CR:L/IR:L/AR:L/MAV:P/MAC:H/MPR:H/MUI:R/MS:C/MC:L/MI:L/MA:L",
		"CVSS:3.1/AV:L/AC:L/PR:H/UI:N/S:U/C:L/I:L/A:L/E:P/RL:T/RC:R/CR:H/IR:H/AR:H/MAV:A/MAC:L/MPR:L/MUI:N/MS:U/MC:H/MI:H/MA:H"},
	"4.0": {"CVSS:4.0/AV:A/AC:H/AT:P/PR:L/UI:P/VC:L/VI:L/VA:L/SC:L/SI:L/SA:L/E:U/CR:L/IR:L/AR:L/MAV:P/MAC:H/MAT:P/MPR:H/MUI:A/MVC:L/MVI:L/MVA:L/MSC:L/MSI:S/MSA:S/S:P/AU:Y/R:I/V:C/RE:H/U:Red",
		"CVSS:4.0/AV:L/AC:L/AT:N/PR:H/UI:A/VC:H/VI:H/VA:H/SC:H/SI:H/SA:H/E:P/CR:H/IR:H/AR:H/MAV:A/MAC:L/MAT:N/MPR:L/MUI:P/MVC:H/MVI:H/MVA:H/MSC:H/MSI:H/MSA:H/S:N/AU:N/R:U/V:D/RE:M/U:Amber"},
}

var (
	poisonOn    bool
	poisonCount uint64
)

// modes in which every checked ParseVector is preceded by poison calls
var poisonModes = map[string]bool{"parsecases": true, "objedges": true, "rndsweep": true, "basesweep": true,
	"setsweep": true, "nomencases": true, "lift40": true, "lift3x": true, "lift20": true, "aliasing": true}

func enablePoison(mode string) {
	poisonOn = poisonModes[mode] && os.Getenv("VERIF_NOPOISON") == ""
}

func init() {
	for name, v := range versions {
		name, v := name, v
		inner := v.Parse
		render := func(err error) {
			if err != nil {
				v.ErrKind(err) // renders the message
			}
		}
		v.Parse = func(s string) (Obj, error) {
			if poisonOn {
				c := atomic.AddUint64(&poisonCount, 1)
				pv := poisonVec[name][c&1]
				safely(func() {
					// one failing call of a pseudo-randomly chosen kind, right before the checked call
					h := (c * 2654435761) >> 11
					hdr := pv[:strings.IndexByte(pv, 'A')] // "" or "CVSS:x.y/"
					body := pv[len(hdr):]
					var bad string
					switch h % 5 {
					case 0: // illegal value on the last element, after every other metric was read
						bad = pv[:strings.LastIndexByte(pv, ':')+1] + "?"
					case 1: // unknown abbreviation (1-3 letters) as the first element
						bad = hdr + "ZZZ"[:1+(h/5)%3] + ":Z/" + body
					case 2: // the first element repeated at the end
						bad = pv + "/" + body[:strings.IndexByte(body, '/')]
					case 3: // cut in the middle
						bad = pv[:len(pv)/2]
					case 4: // unknown abbreviation at the end
						bad = pv + "/ZZ:Z"
					}
					_, err := inner(bad)
					render(err)
					if c%509 == 1 {
						parts := strings.Split(pv, "/")
						for i := range parts {
							k := strings.IndexByte(parts[i], ':')
							if k < 0 || strings.HasPrefix(parts[i], "CVSS") {
								continue
							}
							old := parts[i]
							parts[i] = old[:k+1] + "Zz"
							_, err := inner(strings.Join(parts, "/"))
							render(err)
							parts[i] = old
							o := v.Zero()
							render(o.Set(old[:k], "Zz"))
						}
						_, err = inner(pv + "/ZZ:Z")
						render(err)
						_, err = inner(pv[:len(pv)/2])
						render(err)
						o := v.Zero()
						render(o.Set("ZZ", "Z"))
						_, err = o.Get("ZZ")
						render(err)
					}
				})
			}
			return inner(s)
		}
	}
}
