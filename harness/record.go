package main

// M3 recorder: drives the public API and writes one event per call AT ITS RETURN (ndjson,
// uniform schema, see spec/Trace.tla). The events are validated by TLC against the
// specification; the recorder itself judges nothing.

import (
	"bufio"
	"encoding/json"
	"fmt"
	"math"
	"math/big"
	"math/rand"
	"os"
	"sort"
	"strings"
	"sync"
)

type exactX struct {
	Inf  bool  `json:"inf"`
	Neg  bool  `json:"neg"`
	Int  []int `json:"int"`
	Frac []int `json:"frac"`
}

type event struct {
	G      int      `json:"g"`
	Seq    int      `json:"seq"`
	Ver    string   `json:"ver"`
	Op     string   `json:"op"`
	H      int      `json:"h"`
	Before []string `json:"before"`
	After  []string `json:"after"`
	A      []int    `json:"a"`
	V      []int    `json:"v"`
	B      []int    `json:"b"`
	OK     bool     `json:"ok"`
	Err    errJ     `json:"err"`
	Val    string   `json:"val"`
	Out    []int    `json:"out"`
	M      string   `json:"m"`
	Tenths int      `json:"tenths"`
	Raw    string   `json:"raw"`
	X      exactX   `json:"x"`
	R      string   `json:"r"`
	Allocs int      `json:"allocs"`
	Pan    string   `json:"pan"` // non-empty: the call panicked (message)
}

func blankEvent() event {
	return event{Before: []string{}, After: []string{}, A: []int{}, V: []int{}, B: []int{}, Out: []int{}, Err: errJ{"none", []int{}}, X: exactX{Int: []int{}, Frac: []int{}}, Tenths: -999}
}

type specTables struct {
	Order  map[string][]string            `json:"order"`
	Values map[string]map[string][]string `json:"values"`
}

type recorder struct {
	last event // the event emitted last (retrace)
	mu   sync.Mutex
	w    *bufio.Writer
	f    *os.File
	n    int
	seq  map[int]int
	tabs specTables
	nh   int
}

func newRecorder(path string, tabs specTables) *recorder {
	f, err := os.Create(path)
	if err != nil {
		fatal("%v", err)
	}
	return &recorder{w: bufio.NewWriterSize(f, 1<<20), f: f, seq: map[int]int{}, tabs: tabs}
}

func (r *recorder) emit(e event) {
	r.mu.Lock()
	r.seq[e.G]++
	e.Seq = r.seq[e.G]
	r.last = e
	b, _ := json.Marshal(&e)
	r.w.Write(b)
	r.w.WriteByte('\n')
	r.n++
	r.mu.Unlock()
}

func (r *recorder) close() { r.w.Flush(); r.f.Close() }

func (r *recorder) handle() int { r.mu.Lock(); r.nh++; h := r.nh; r.mu.Unlock(); return h }

func (r *recorder) proj(ver string, o Obj) []string { return project(o, r.tabs.Order[ver]) }

func errToJ(v *Ver, err error) errJ {
	k := v.ErrKind(err)
	return errJ{k.Kind, intsOf(k.Abv)}
}

// ---- recorded API calls -------------------------------------------------------------------
func (r *recorder) parse(g int, ver string, s string) (Obj, int) {
	v := versions[ver]
	e := blankEvent()
	e.G, e.Ver, e.Op, e.B = g, ver, "parse", intsOf(s)
	var o Obj
	var err error
	if p, msg := safely(func() { o, err = v.Parse(s) }); p {
		e.Pan = msg
	}
	e.OK = err == nil
	e.Err = errToJ(v, err)
	h := 0
	if o != nil {
		h = r.handle()
		e.H = h
		e.After = r.proj(ver, o)
	}
	r.emit(e)
	return o, h
}

func (r *recorder) set(g int, ver string, h int, o Obj, a, val string) {
	v := versions[ver]
	e := blankEvent()
	e.G, e.Ver, e.Op, e.H, e.A, e.V = g, ver, "set", h, intsOf(a), intsOf(val)
	e.Before = r.proj(ver, o)
	var err error
	if p, msg := safely(func() { err = o.Set(a, val) }); p {
		e.Pan = msg
	}
	e.Err = errToJ(v, err)
	e.After = r.proj(ver, o)
	r.emit(e)
}

func (r *recorder) get(g int, ver string, h int, o Obj, a string) {
	v := versions[ver]
	e := blankEvent()
	e.G, e.Ver, e.Op, e.H, e.A = g, ver, "get", h, intsOf(a)
	e.Before = r.proj(ver, o)
	var val string
	var err error
	if p, msg := safely(func() { val, err = o.Get(a) }); p {
		e.Pan = msg
	}
	e.Val, e.Err = val, errToJ(v, err)
	e.After = r.proj(ver, o)
	r.emit(e)
}

func (r *recorder) vector(g int, ver string, h int, o Obj) string {
	e := blankEvent()
	e.G, e.Ver, e.Op, e.H = g, ver, "vector", h
	e.Before = r.proj(ver, o)
	var s string
	if p, msg := safely(func() { s = o.Vector() }); p {
		e.Pan = msg
	}
	e.Out = intsOf(s)
	e.After = r.proj(ver, o)
	r.emit(e)
	return s
}

func (r *recorder) score(g int, ver string, h int, o Obj, m string) {
	e := blankEvent()
	e.G, e.Ver, e.Op, e.H, e.M = g, ver, "score", h, m
	e.Before = r.proj(ver, o)
	var x float64
	if p, msg := safely(func() { x = o.Score(m) }); p {
		e.Pan = msg
	}
	e.Raw = fmt.Sprintf("%v", x)
	if k, ok := isTenth(x, -1000, 1000); ok {
		e.Tenths = k
	}
	e.After = r.proj(ver, o)
	r.emit(e)
}

func (r *recorder) nomen(g int, h int, o Obj) {
	e := blankEvent()
	e.G, e.Ver, e.Op, e.H = g, "4.0", "nomen", h
	e.Before = r.proj("4.0", o)
	if p, msg := safely(func() { e.R = o.Nomenclature() }); p {
		e.Pan = msg
	}
	e.After = r.proj("4.0", o)
	r.emit(e)
}

func exactOf(x float64) exactX {
	ex := exactX{Int: []int{}, Frac: []int{}}
	if math.IsInf(x, 0) {
		ex.Inf, ex.Neg = true, x < 0
		return ex
	}
	ex.Neg = math.Signbit(x)
	s := new(big.Float).SetPrec(2200).SetFloat64(math.Abs(x)).Text('f', 1100)
	ip, fp, _ := strings.Cut(s, ".")
	ip = strings.TrimLeft(ip, "0")
	fp = strings.TrimRight(fp, "0")
	for _, c := range ip {
		ex.Int = append(ex.Int, int(c-'0'))
	}
	for _, c := range fp {
		ex.Frac = append(ex.Frac, int(c-'0'))
	}
	return ex
}

func (r *recorder) rating(g int, ver string, x float64) {
	v := versions[ver]
	e := blankEvent()
	e.G, e.Ver, e.Op = g, ver, "rating"
	e.X = exactOf(x)
	e.Raw = fmt.Sprintf("%v", x)
	var s string
	var err error
	if p, msg := safely(func() { s, err = v.Rating(x) }); p {
		e.Pan = msg
	}
	e.Err = errToJ(v, err)
	switch {
	case err == nil:
		e.R = s
	case e.Err.Kind == "bounds" && s == "":
		e.R = "!bounds"
	default:
		e.R = "!other:" + s + ":" + e.Err.Kind
	}
	r.emit(e)
}

// ---- families ---------------------------------------------------------------------------------
func ratingInputs(rng *rand.Rand, n int) []float64 {
	var xs []float64
	add := func(x float64) {
		if !math.IsNaN(x) {
			xs = append(xs, x)
		}
	}
	around := func(x float64) {
		add(x)
		up, dn := x, x
		for i := 0; i < 3; i++ {
			up, dn = math.Nextafter(up, math.Inf(1)), math.Nextafter(dn, math.Inf(-1))
			add(up)
			add(dn)
		}
	}
	for k := 0; k <= 100; k++ {
		around(float64(k) / 10)
	}
	for _, t := range []float64{0, 0.1, 4, 7, 9, 10, 0.05, 0.09, 0.099, 3.95, 3.99, 3.999, 6.95, 6.99, 8.95, 8.99, 9.999, 10.0001, 10.05, -0.05, -0.001} {
		around(t)
		around(-t)
	}
	add(math.Copysign(0, -1))
	add(math.Inf(1))
	add(math.Inf(-1))
	add(math.MaxFloat64)
	add(-math.MaxFloat64)
	add(math.SmallestNonzeroFloat64)
	add(-math.SmallestNonzeroFloat64)
	for _, p := range []float64{1e-300, 1e-17, 4e-16, 1e-15, 1e-9, 1e-5, 5e-324, 2.2250738585072014e-308} {
		add(p)
		add(-p)
		add(10 + p)
		add(10 - p)
	}
	for i := 0; i < n; i++ {
		switch i % 4 {
		case 0: // any finite double, any exponent
			add(math.Float64frombits(rng.Uint64()))
		case 1:
			add(-1 + 12*rng.Float64())
		case 2: // close to a threshold
			t := []float64{0, 0.1, 4, 7, 9, 10}[rng.Intn(6)]
			add(t + (rng.Float64()-0.5)*math.Pow(10, -float64(rng.Intn(17))))
		case 3: // hundredths and thousandths
			add(float64(rng.Intn(12000)-1000) / 1000)
		}
	}
	return xs
}

func recordRating(r *recorder, a *args) {
	rng := rand.New(rand.NewSource(a.Seed))
	n := a.N
	if n <= 0 {
		n = 3000
	}
	for _, x := range ratingInputs(rng, n) {
		for _, ver := range []string{"3.0", "3.1", "4.0"} {
			r.rating(0, ver, x)
		}
	}
}

// C16 family: optional metrics alone / in pairs / all / explicit X, in three base contexts,
// every supplemental metric x value, seeded random subsets; objects built by Set and by ParseVector.
func recordNomen(r *recorder, a *args) {
	rng := rand.New(rand.NewSource(a.Seed))
	ord := r.tabs.Order["4.0"]
	vals := r.tabs.Values["4.0"]
	var optional []string
	for _, m := range ord {
		if vals[m][0] == "X" {
			optional = append(optional, m)
		}
	}
	mk := func(ctx int, defs map[string]string) {
		o := versions["4.0"].Zero()
		h := r.handle()
		for _, m := range ord {
			vs := vals[m]
			if vs[0] != "X" {
				r.set(0, "4.0", h, o, m, vs[ctx%len(vs)])
			}
		}
		keys := make([]string, 0, len(defs))
		for m := range defs {
			keys = append(keys, m)
		}
		sort.Strings(keys)
		for _, m := range keys {
			r.set(0, "4.0", h, o, m, defs[m])
		}
		r.nomen(0, h, o)
		// the same object through its vector
		s := r.vector(0, "4.0", h, o)
		if p, h2 := r.parse(0, "4.0", s); p != nil {
			r.nomen(0, h2, p)
		}
	}
	for ctx := 0; ctx < 3; ctx++ {
		mk(ctx, map[string]string{})
		for _, m := range optional {
			for _, x := range vals[m] {
				mk(ctx, map[string]string{m: x}) // includes explicit X
			}
		}
		for i := 0; i+1 < len(optional); i++ {
			mk(ctx, map[string]string{optional[i]: vals[optional[i]][1], optional[i+1]: vals[optional[i+1]][len(vals[optional[i+1]])-1]})
		}
		all := map[string]string{}
		for _, m := range optional {
			all[m] = vals[m][1+rng.Intn(len(vals[m])-1)]
		}
		mk(ctx, all)
	}
	n := a.N
	if n <= 0 {
		n = 300
	}
	for i := 0; i < n; i++ {
		d := map[string]string{}
		for _, m := range optional {
			if rng.Intn(6) == 0 {
				d[m] = vals[m][rng.Intn(len(vals[m]))]
			}
		}
		mk(rng.Intn(3), d)
	}
	// a defined metric set back to X no longer counts
	for _, m := range optional {
		o := versions["4.0"].Zero()
		h := r.handle()
		r.set(0, "4.0", h, o, m, vals[m][len(vals[m])-1])
		r.nomen(0, h, o)
		r.set(0, "4.0", h, o, m, "X")
		r.nomen(0, h, o)
	}
}

func runRecord(a *args) {
	var tabs specTables
	if err := json.Unmarshal([]byte(a.Aux), &tabs); err != nil {
		fatal("record: -aux must carry the spec tables: %v", err)
	}
	r := newRecorder(a.In, tabs) // -in is the trace file to write
	switch a.Prop {
	case "C15":
		recordRating(r, a)
	case "C16":
		recordNomen(r, a)
	default:
		recordAPI(r, a)
	}
	r.close()
	col := newCollector("record", a.Prop)
	col.s.Evaluations = int64(r.n)
	col.s.Info["events"] = r.n
	col.write(a.Out)
}

func init() { modes["record"] = runRecord }
