package main

// general API driver for M3: seeded random histories over all four versions (parse of valid,
// mutated and junk strings, long Set histories with legal and illegal arguments, Get, Vector,
// re-parse, every scoring method), optionally from several goroutines.

import (
	"math/rand"
	"sync"
)

func mutateBytes(rng *rand.Rand, s string) string {
	b := []byte(s)
	n := 1 + rng.Intn(3)
	for i := 0; i < n && len(b) > 0; i++ {
		p := rng.Intn(len(b))
		switch rng.Intn(7) {
		case 0: // substitute
			b[p] = []byte{'/', ':', 'X', 'N', ' ', 0, 200, 'n', 'h'}[rng.Intn(9)]
		case 1: // delete
			b = append(b[:p], b[p+1:]...)
		case 2: // insert
			c := []byte{'/', ':', 'N', ' ', 'A'}[rng.Intn(5)]
			b = append(b[:p], append([]byte{c}, b[p:]...)...)
		case 3: // case flip
			if b[p] >= 'A' && b[p] <= 'Z' {
				b[p] += 32
			} else if b[p] >= 'a' && b[p] <= 'z' {
				b[p] -= 32
			}
		case 4: // transpose
			if p+1 < len(b) {
				b[p], b[p+1] = b[p+1], b[p]
			}
		case 5: // truncate
			b = b[:p]
		case 6: // duplicate a tail
			b = append(b, b[p:]...)
		}
	}
	return string(b)
}

func recordAPI(r *recorder, a *args) {
	G := 1
	if a.Tier == "concurrent" {
		G = 8
	}
	n := a.N
	if n <= 0 {
		n = 2000
	}
	var wg sync.WaitGroup
	for g := 0; g < G; g++ {
		wg.Add(1)
		go func(g int) {
			defer wg.Done()
			rng := rand.New(rand.NewSource(a.Seed*1000 + int64(g)))
			for i := 0; i < n/G; i++ {
				ver := verOrder[rng.Intn(4)]
				v := versions[ver]
				ord := r.tabs.Order[ver]
				vals := r.tabs.Values[ver]
				// a random object through Sets; every third one has only its mandatory metrics defined
				o := v.Zero()
				h := r.handle()
				baseOnly := i%3 == 0
				for _, m := range ord {
					vs := vals[m]
					optional := vs[0] == "X" || vs[len(vs)-1] == "ND"
					if baseOnly && optional {
						continue
					}
					if baseOnly || rng.Intn(3) > 0 {
						r.set(g, ver, h, o, m, vs[rng.Intn(len(vs))])
					}
				}
				if baseOnly {
					for k := 0; k < 4; k++ {
						r.vector(g, ver, h, o)
					}
				}
				// some illegal calls
				for k := 0; k < 2; k++ {
					m := ord[rng.Intn(len(ord))]
					switch rng.Intn(3) {
					case 0:
						r.set(g, ver, h, o, m, mutateBytes(rng, vals[m][rng.Intn(len(vals[m]))]))
					case 1:
						r.set(g, ver, h, o, mutateBytes(rng, m), vals[m][0])
					case 2:
						r.get(g, ver, h, o, mutateBytes(rng, m))
					}
				}
				r.get(g, ver, h, o, ord[rng.Intn(len(ord))])
				for _, sc := range v.Scores {
					r.score(g, ver, h, o, sc)
				}
				if ver == "4.0" {
					r.nomen(g, h, o)
				}
				s := r.vector(g, ver, h, o)
				// parse it back with every parser, and parse mutants of it
				for _, v2 := range verOrder {
					r.parse(g, v2, s)
				}
				// parse - edit the result - parse the same string again: the second result is what the string says
				if p1, h1 := r.parse(g, ver, s); p1 != nil {
					for k := 0; k < 3; k++ {
						m := ord[rng.Intn(len(ord))]
						r.set(g, ver, h1, p1, m, vals[m][rng.Intn(len(vals[m]))])
					}
					if p2, h2 := r.parse(g, ver, s); p2 != nil {
						r.vector(g, ver, h2, p2)
					}
					r.vector(g, ver, h1, p1)
				}
				for k := 0; k < 3; k++ {
					r.parse(g, ver, mutateBytes(rng, s))
				}
				// near-identical strings parsed back to back (a memo comparing only a prefix / a suffix / a hash shows here)
				for k := 0; k < 3; k++ {
					o3 := o.Clone()
					var m string
					switch k {
					case 0:
						m = ord[0]
					case 1:
						m = ord[len(ord)-1]
					default:
						m = ord[rng.Intn(len(ord))]
					}
					if err := o3.Set(m, vals[m][rng.Intn(len(vals[m]))]); err == nil {
						s3 := o3.Vector()
						r.parse(g, ver, s)
						r.parse(g, ver, s3)
					}
				}
				// Rating of every score, and of a few arbitrary numbers
				if v.Rating != nil {
					for _, sc := range v.Scores {
						var x float64
						if p, _ := safely(func() { x = o.Score(sc) }); !p {
							r.rating(g, ver, x)
						}
					}
					r.rating(g, ver, float64(rng.Intn(1300)-100)/100)
				}
				// the object must still be what it was
				r.get(g, ver, h, o, ord[rng.Intn(len(ord))])
			}
		}(g)
	}
	wg.Wait()
}
