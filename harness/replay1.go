package main

// single-case replays of score comparisons (used by bin/check --replay)

import (
	"encoding/json"
	"os"
)

type score1 struct {
	Mode   string `json:"mode"`
	Ver    string `json:"ver"`
	Vector string `json:"vector"`
	Method string `json:"method"`
	Want   *int   `json:"want_tenths"`
	WantIn []int  `json:"want_set"`
	A      string `json:"a"`
	B      string `json:"b"`
}

func loadScore1(path string) score1 {
	var r score1
	b, err := os.ReadFile(path)
	if err != nil {
		fatal("%v", err)
	}
	if err := json.Unmarshal(b, &r); err != nil {
		fatal("bad replay recipe: %v", err)
	}
	if r.Method == "" {
		r.Method = versions[r.Ver].Scores[len(versions[r.Ver].Scores)-1]
		if r.Ver == "4.0" {
			r.Method = "score"
		}
	}
	return r
}

func runScore1(a *args) {
	r := loadScore1(a.In)
	col := newCollector("score1", a.Prop)
	o, err := versions[r.Ver].Parse(r.Vector)
	if err != nil || o == nil {
		fatal("replay vector does not parse: %v", err)
	}
	var got float64
	p, msg := safely(func() { got = o.Score(r.Method) })
	ok := !p
	if ok {
		ok = false
		wants := r.WantIn
		if r.Want != nil {
			wants = append(wants, *r.Want)
		}
		for _, w := range wants {
			if got == float64(w)/10 {
				ok = true
			}
		}
	}
	col.distinct(r.Vector, true)
	if !ok {
		col.violate(Violation{Property: a.Prop, Kind: "score differs from the specification", Version: r.Ver, Input: r.Vector,
			Expected: map[string]interface{}{"tenths": r.Want, "set": r.WantIn}, Observed: map[string]interface{}{"score": fmtF(got), "panic": msg}})
	}
	col.write(a.Out)
}

func runPair1(a *args) {
	r := loadScore1(a.In)
	col := newCollector("pair1", a.Prop)
	oa, e1 := versions[r.Ver].Parse(r.A)
	ob, e2 := versions[r.Ver].Parse(r.B)
	if e1 != nil || e2 != nil {
		fatal("replay vectors do not parse: %v %v", e1, e2)
	}
	var ga, gb float64
	p, msg := safely(func() { ga = oa.Score(r.Method); gb = ob.Score(r.Method) })
	col.distinct(r.A+"|"+r.B, true)
	if p || ga != gb {
		col.violate(Violation{Property: a.Prop, Kind: "two objects with the same effective values score differently", Version: r.Ver,
			Input: map[string]string{"a": r.A, "b": r.B}, Expected: "equal", Observed: map[string]interface{}{"a": fmtF(ga), "b": fmtF(gb), "panic": msg}})
	}
	col.write(a.Out)
}

func init() {
	modes["score1"] = runScore1
	modes["pair1"] = runPair1
}
