package main

// Large seeded / exhaustive families written directly from the specification tables (C01, C02, C06):
//  - v2.0: EVERY combination of the 8 optional metrics (192,000) on three base combinations;
//  - v3.0, v3.1, v4.0: N seeded random full assignments per version, each optional metric undefined with
//    probability 1/3 (so that narrow value combinations - e.g. 4 particular values at once - are reached).
// The vector text is assembled from the values (canonical order, undefined metrics omitted; v2 groups in
// full); the oracle is that text: ParseVector must accept it (C01), Get must return what was written and
// the undefined value for what was omitted (C06); the object built by Set from the same values must
// round-trip through Vector()/ParseVector to an == object (C02).

import (
	"encoding/json"
	"math/rand"
	"runtime"
	"strings"
	"sync"
)

func runRndSweep(a *args) {
	prop := a.Prop
	col := newCollector("rndsweep", prop)
	var tabs specTables
	if err := json.Unmarshal([]byte(a.Aux), &tabs); err != nil {
		fatal("rndsweep: -aux must carry the spec tables: %v", err)
	}
	N := a.N
	if N <= 0 {
		N = 150000
	}
	var total int64
	var mu sync.Mutex
	for _, vn := range verOrder {
		v := versions[vn]
		ord, vals := tabs.Order[vn], tabs.Values[vn]
		undef := "X"
		if vn == "2.0" {
			undef = "ND"
		}
		hdr := map[string]string{"2.0": "", "3.0": "CVSS:3.0/", "3.1": "CVSS:3.1/", "4.0": "CVSS:4.0/"}[vn]
		isOpt := map[string]bool{}
		for _, m := range ord {
			isOpt[m] = vals[m][0] == "X" || vals[m][len(vals[m])-1] == "ND"
		}
		check := func(asg map[string]string) {
			// text
			var parts []string
			if vn == "2.0" {
				grp := func(ms []string) bool {
					for _, m := range ms {
						if asg[m] != "ND" {
							return true
						}
					}
					return false
				}
				for _, m := range ord[:6] {
					parts = append(parts, m+":"+asg[m])
				}
				if grp(ord[6:9]) {
					for _, m := range ord[6:9] {
						parts = append(parts, m+":"+asg[m])
					}
				}
				if grp(ord[9:]) {
					for _, m := range ord[9:] {
						parts = append(parts, m+":"+asg[m])
					}
				}
			} else {
				for _, m := range ord {
					if !isOpt[m] || asg[m] != undef {
						parts = append(parts, m+":"+asg[m])
					}
				}
			}
			s := hdr + strings.Join(parts, "/")
			o, err := v.Parse(s)
			if err != nil || o == nil {
				if prop == "C01" {
					col.violate(Violation{Property: prop, Kind: "accept/reject differs from the grammar", Version: vn, Input: inputRec([]byte(s)),
						Expected: map[string]interface{}{"well_formed": true}, Observed: map[string]interface{}{"accepted": false, "error": v.ErrKind(err)}})
				}
				return
			}
			switch prop {
			case "C06":
				for _, m := range ord {
					if g, e := o.Get(m); e != nil || g != asg[m] {
						col.violate(Violation{Property: prop, Kind: "Get after ParseVector differs from the vector text", Version: vn, Input: inputRec([]byte(s)), Expected: map[string]string{m: asg[m]}, Observed: g})
					}
				}
			case "C02":
				b := v.Zero()
				for _, m := range ord {
					if e := b.Set(m, asg[m]); e != nil {
						return
					}
				}
				vec := b.Vector()
				back, e2 := v.Parse(vec)
				if e2 != nil || back == nil || !back.Same(b) {
					col.violate(Violation{Property: prop, Kind: "ParseVector(Vector()) != original object", Version: vn, Input: map[string]interface{}{"vector": vec, "values_written": s},
						Expected: "== original", Observed: map[string]interface{}{"error": v.ErrKind(e2)}})
				}
			}
		}
		if vn == "2.0" {
			bases := []map[string]string{{"AV": "N", "AC": "L", "Au": "N", "C": "C", "I": "C", "A": "C"}, {"AV": "L", "AC": "H", "Au": "M", "C": "N", "I": "P", "A": "N"}, {"AV": "A", "AC": "M", "Au": "S", "C": "P", "I": "N", "A": "P"}}
			opt := ord[6:]
			idx := make([]int, len(opt))
			asg := map[string]string{}
			for {
				for i, m := range opt {
					asg[m] = vals[m][idx[i]]
				}
				for _, b := range bases {
					for k, x := range b {
						asg[k] = x
					}
					check(asg)
					total++
				}
				d := len(opt) - 1
				for d >= 0 {
					idx[d]++
					if idx[d] < len(vals[opt[d]]) {
						break
					}
					idx[d] = 0
					d--
				}
				if d < 0 {
					break
				}
			}
			continue
		}
		var wg sync.WaitGroup
		nw := runtime.GOMAXPROCS(0)
		for w := 0; w < nw; w++ {
			wg.Add(1)
			go func(w int) {
				defer wg.Done()
				rng := rand.New(rand.NewSource(a.Seed*977 + int64(w)))
				asg := map[string]string{}
				var n int64
				for i := 0; i < N/nw; i++ {
					for _, m := range ord {
						vs := vals[m]
						if isOpt[m] && rng.Intn(3) == 0 {
							asg[m] = undef
						} else {
							asg[m] = vs[rng.Intn(len(vs))]
						}
					}
					check(asg)
					n++
				}
				mu.Lock()
				total += n
				mu.Unlock()
			}(w)
		}
		wg.Wait()
	}
	col.s.Evaluations = total
	col.s.Distinct = total
	col.s.Nontrivial = total
	col.sample(map[string]interface{}{"vectors": total})
	col.write(a.Out)
}

func init() { modes["rndsweep"] = runRndSweep }
