package main

import (
	"fmt"
	"math"
	"os"
)

func posInf() float64                         { return math.Inf(1) }
func sscan(s string, x *float64) (int, error) { return fmt.Sscan(s, x) }

func readFile(p string) ([]byte, error) { return os.ReadFile(p) }
