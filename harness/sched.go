package main

// M4: schedule replay with gate hooks (C14). TLC (MC_Pool, coarse + history) prints every
// interleaving of the calls' steps; each is forced on the real ParseVector: the verif hook blocks
// the calling goroutine at its gate positions until the controller releases it, with
// GOMAXPROCS(1) so that exactly one goroutine runs at a time and sync.Pool is deterministic.
// Checked: every call's result equals the sequential specification's (printed by TLC), and the
// pooled buffer a call holds is never handed to / touched by another call before its "put".

import (
	"bufio"
	"encoding/json"
	"fmt"
	"os"
	"runtime"
	"unsafe"
)

type schedCase struct {
	Inputs [][]int `json:"inputs"`
	Sched  []int   `json:"sched"`
	Res    []struct {
		OK  bool     `json:"ok"`
		Err errJ     `json:"err"`
		Obj []string `json:"obj"`
	} `json:"res"`
	NParts []int `json:"nparts"`
}

type hookEv struct {
	G   int
	Ev  string
	Buf uintptr
	S   string
}

type gateCtl struct {
	cur     int
	ctr     []int
	gates   []map[int]bool
	arrived chan int
	resume  []chan struct{}
	events  []hookEv
}

func bufID(buf any) uintptr {
	if s, ok := buf.([]string); ok && len(s) > 0 {
		return uintptr(unsafe.Pointer(unsafe.SliceData(s)))
	}
	return 0
}

type callRes struct {
	obj Obj
	err error
	pan string
}

func runSched(a *args) {
	prop := a.Prop
	col := newCollector("sched", prop)
	if !hooksAvailable {
		col.s.Info["skipped"] = "verif hooks absent in /repo"
		col.write(a.Out)
		return
	}
	old := runtime.GOMAXPROCS(1)
	defer runtime.GOMAXPROCS(old)
	v := versions["2.0"]
	ord20 := []string{"AV", "AC", "Au", "C", "I", "A", "E", "RL", "RC", "CDP", "TD", "CR", "IR", "AR"}
	var ctl *gateCtl
	setHook(func(ev string, buf any, s string) {
		c := ctl
		if c == nil {
			return
		}
		g := c.cur
		c.ctr[g]++
		c.events = append(c.events, hookEv{g, ev, bufID(buf), s})
		if c.gates[g][c.ctr[g]] || (ev == "put" && c.gates[g][-1]) {
			c.arrived <- g
			<-c.resume[g]
		}
	})
	defer setHook(nil)
	nsched := 0
	// hook events of every 8th schedule are also written as a trace for TLC (spec/TracePool.tla)
	var tw *bufio.Writer
	if a.Aux != "" {
		f, err := os.Create(a.Aux)
		if err != nil {
			fatal("%v", err)
		}
		defer f.Close()
		tw = bufio.NewWriterSize(f, 1<<20)
		defer tw.Flush()
	}
	bufIdx := map[uintptr]int{}
	emit := func(m map[string]interface{}) {
		for _, k := range []string{"g", "buf"} {
			if _, ok := m[k]; !ok {
				m[k] = 0
			}
		}
		if _, ok := m["s"]; !ok {
			m["s"] = []int{}
		}
		if _, ok := m["ok"]; !ok {
			m["ok"] = false
		}
		if _, ok := m["obj"]; !ok {
			m["obj"] = []string{}
		}
		b, _ := json.Marshal(m)
		tw.Write(b)
		tw.WriteByte('\n')
	}
	readTLCLines(a.In, "@P", func(raw []byte) {
		var sc schedCase
		if err := json.Unmarshal(raw, &sc); err != nil {
			fatal("bad @P: %v", err)
		}
		nsched++
		n := len(sc.Inputs)
		c := &gateCtl{ctr: make([]int, n), gates: make([]map[int]bool, n), arrived: make(chan int), resume: make([]chan struct{}, n)}
		done := make(chan int)
		results := make([]callRes, n)
		finished := make([]bool, n)
		for g := 0; g < n; g++ {
			// hook ordinals: 1 get, 2 split, 3.. reads, last put. Gates: get, split, first read, middle read, put
			mid := (sc.NParts[g]+1)/2 + 1
			c.gates[g] = map[int]bool{1: true, 2: true, 3: true, 2 + mid: true, -1: true}
			if a.N == 1 { // all reads in one step: gates at get, split and put only
				c.gates[g] = map[int]bool{1: true, 2: true, -1: true}
			}
			c.resume[g] = make(chan struct{})
			go func(g int) {
				<-c.resume[g]
				var r callRes
				p, msg := safely(func() { r.obj, r.err = v.Parse(string(bytesOf(sc.Inputs[g]))) })
				if p {
					r.pan = msg
				}
				results[g] = r
				done <- g
			}(g)
		}
		ctl = c
		release := func(g int) {
			if finished[g] {
				return
			}
			c.cur = g
			c.resume[g] <- struct{}{}
			select {
			case <-c.arrived:
			case <-done:
				finished[g] = true
			}
		}
		for _, g1 := range sc.Sched {
			release(g1 - 1)
		}
		for g := 0; g < n; g++ { // drain whatever is left, in goroutine order
			for !finished[g] {
				release(g)
			}
		}
		ctl = nil
		key := fmt.Sprint(sc.Inputs, sc.Sched)
		col.distinct(key, true)
		rec := map[string]interface{}{"mode": "sched", "prefix": "@P", "line": sc}
		inputs := make([]string, n)
		for g := range inputs {
			inputs[g] = string(bytesOf(sc.Inputs[g]))
		}
		// results = sequential specification
		for g := 0; g < n; g++ {
			r := results[g]
			want := ErrK{sc.Res[g].Err.Kind, string(bytesOf(sc.Res[g].Err.Abv))}
			got := v.ErrKind(r.err)
			// C01: accept / reject, nil-ness, no panic; C06: the accepted object is what the text says; C14: both (filtered below)
			verdictBad := r.pan != "" || (r.err == nil) != sc.Res[g].OK || (r.err == nil) != (r.obj != nil)
			objBad := !verdictBad && sc.Res[g].OK && !eqs(project(r.obj, ord20), sc.Res[g].Obj)
			bad := verdictBad || objBad
			switch prop {
			case "C01":
				bad = verdictBad
			case "C06":
				bad = objBad
			}
			col.count("call results compared with the sequential specification", 1)
			if bad && prop == "C14" && !contextDependent20(inputs[g], outcome20(r.obj, r.err, r.pan != "")) {
				// the same outcome alone, in every neutral context: a deterministic deviation (C01 / C06), not a dependence on the schedule
				col.count("deviations from the specification that do not depend on the context (left to C01 / C06)", 1)
				bad = false
			}
			if bad {
				var gotObj []string
				if r.obj != nil {
					gotObj = project(r.obj, ord20)
				}
				col.violate(Violation{Property: prop, Kind: "result of a call depends on the interleaving / on earlier calls", Version: "2.0",
					Input:    map[string]interface{}{"inputs": inputs, "schedule": sc.Sched, "call": g + 1},
					Expected: map[string]interface{}{"ok": sc.Res[g].OK, "error": want, "object": sc.Res[g].Obj},
					Observed: map[string]interface{}{"error": got, "object": gotObj, "panic": r.pan}, Replay: rec})
			}
		}
		// ownership on the hook events
		held := map[uintptr]int{}
		for _, e := range c.events {
			switch e.Ev {
			case "get":
				if h, ok := held[e.Buf]; ok && h != e.G {
					col.violate(Violation{Property: prop, Kind: "pooled buffer handed to a second call while the first still uses it", Version: "2.0",
						Input: map[string]interface{}{"inputs": inputs, "schedule": sc.Sched}, Expected: "exclusive ownership between get and put",
						Observed: fmt.Sprintf("call %d got the buffer held by call %d", e.G+1, h+1), Replay: rec})
				}
				held[e.Buf] = e.G
			case "put":
				delete(held, e.Buf)
			default:
				if h, ok := held[e.Buf]; !ok || h != e.G {
					col.violate(Violation{Property: prop, Kind: "call touches a pooled buffer it does not own", Version: "2.0",
						Input: map[string]interface{}{"inputs": inputs, "schedule": sc.Sched}, Expected: "owner only",
						Observed: fmt.Sprintf("call %d: %s", e.G+1, e.Ev), Replay: rec})
				}
			}
		}
		col.count("hook events checked for ownership", int64(len(c.events)))
		if len(c.events) == 0 {
			col.count("schedules without hook events (call sites absent?): hook-level checks skipped", 1)
		}
		if tw != nil && len(c.events) > 0 && (int64(nsched)+a.Seed)%8 == 0 {
			emit(map[string]interface{}{"ev": "reset"})
			for _, e := range c.events {
				id, ok := bufIdx[e.Buf]
				if !ok {
					id = len(bufIdx) + 1
					bufIdx[e.Buf] = id
				}
				emit(map[string]interface{}{"ev": e.Ev, "g": e.G + 1, "buf": id, "s": intsOf(e.S)})
			}
			for g := 0; g < n; g++ {
				var obj []string
				if results[g].obj != nil {
					obj = project(results[g].obj, ord20)
				} else {
					obj = []string{}
				}
				emit(map[string]interface{}{"ev": "ret", "g": g + 1, "s": sc.Inputs[g], "ok": results[g].err == nil && results[g].pan == "", "obj": obj})
			}
			col.count("schedules written as hook-event traces for TLC", 1)
		}
		if len(col.s.Samples) < 3 {
			col.sample(map[string]interface{}{"inputs": inputs, "schedule": sc.Sched, "hook_events": len(c.events)})
		}
	})
	col.s.Info["schedules"] = nsched
	col.write(a.Out)
}

func init() { modes["sched"] = runSched }
