package main

// Frame-condition sweep (C07, C09) written from the specification tables (Object!SetB: [o EXCEPT ![m] = v]):
// N seeded random full objects per version (each optional metric undefined with probability 1/3; built by Set
// in a seeded random ORDER), and on a copy of each object EVERY (metric, legal value) pair of the version:
//   - Set must succeed, Get(m) = v afterwards, every other Get unchanged (C07 clause 1);
//   - the result must be == to the object built afresh from the final assignment, in canonical order
//     (C07 clause 3: equal values => equal objects, whatever history);
//   - one illegal value per metric (a value legal for ANOTHER metric of the version but not for this one, a
//     misspelling, the empty string): Set must fail and leave the object == (C07 clause 2, C09);
//   - every Get returns a legal value of that metric; Get does not change the object (C09).
// A defect that needs particular values of two or three OTHER metrics at the moment of the Set is reached
// here; the model-derived edges (objedges) only start from the star family.

import (
	"encoding/json"
	"math/rand"
	"runtime"
	"sync"
)

func runSetSweep(a *args) {
	prop := a.Prop
	col := newCollector("setsweep", prop)
	var tabs specTables
	if err := json.Unmarshal([]byte(a.Aux), &tabs); err != nil {
		fatal("setsweep: -aux must carry the spec tables: %v", err)
	}
	N := a.N
	if N <= 0 {
		N = 4000
	}
	var total, sets int64
	var mu sync.Mutex
	for _, vn := range verOrder {
		v := versions[vn]
		ord, vals := tabs.Order[vn], tabs.Values[vn]
		undef := "X"
		if vn == "2.0" {
			undef = "ND"
		}
		isOpt := map[string]bool{}
		legal := map[string]map[string]bool{}
		for _, m := range ord {
			isOpt[m] = vals[m][0] == "X" || vals[m][len(vals[m])-1] == "ND"
			legal[m] = map[string]bool{}
			for _, x := range vals[m] {
				legal[m][x] = true
			}
		}
		// illegal values per metric: legal elsewhere in the version, misspellings, empty
		illegal := map[string][]string{}
		for _, m := range ord {
			seen := map[string]bool{}
			add := func(x string) {
				if !legal[m][x] && !seen[x] {
					seen[x] = true
					illegal[m] = append(illegal[m], x)
				}
			}
			for _, k := range ord {
				for _, x := range vals[k] {
					add(x)
				}
			}
			for _, x := range vals[m] {
				add(x + x)
				add(x + " ")
				add(" " + x)
				add(string(x[0]|0x20) + x[1:])
			}
			add("")
		}
		// every 1-byte and every 2-byte string as the value of every metric: accepted iff it is a value of the metric
		{
			var wgv sync.WaitGroup
			for _, m := range ord {
				wgv.Add(1)
				go func(m string) {
					defer wgv.Done()
					zero := v.Zero()
					var ns int64
					buf := make([]byte, 2)
					try := func(x string) {
						o := zero.Clone()
						ns++
						var e error
						if p, msg := safely(func() { e = o.Set(m, x) }); p {
							if prop == "C09" {
								col.violate(Violation{Property: prop, Kind: "a call panicked", Version: vn, Input: map[string]interface{}{"abv": m, "value_bytes": []byte(x)}, Expected: "no panic", Observed: msg})
							}
							return
						}
						if (e == nil) != legal[m][x] && prop == "C09" {
							col.violate(Violation{Property: prop, Kind: "Set accepts/refuses differently from the metric's value set (all 1- and 2-byte values)", Version: vn,
								Input: map[string]interface{}{"abv": m, "value": x, "value_bytes": []int{int(x[0]), int(x[len(x)-1])}}, Expected: map[string]bool{"accepted": legal[m][x]}, Observed: v.ErrKind(e)})
						} else if e == nil && prop == "C07" {
							// whatever C09 says about the pair: a Set that reports success makes Get(m) return v and changes nothing else
							okFrame := true
							for _, k := range ord {
								g, ge := o.Get(k)
								z, _ := zero.Get(k)
								if k == m {
									okFrame = okFrame && ge == nil && g == x
								} else {
									okFrame = okFrame && g == z
								}
							}
							if !okFrame {
								col.violate(Violation{Property: prop, Kind: "Set reported success but Get(m) != v or another metric changed (all 1- and 2-byte values)", Version: vn,
									Input: map[string]interface{}{"abv": m, "value": x, "value_bytes": []int{int(x[0]), int(x[len(x)-1])}}, Expected: map[string]string{m: x, "others": "unchanged"}, Observed: o.Vector()})
							}
						} else if e != nil && !o.Same(zero) && prop == "C07" {
							col.violate(Violation{Property: prop, Kind: "a failed Set changed the object", Version: vn, Input: map[string]interface{}{"abv": m, "value_bytes": []byte(x)}, Expected: "unchanged", Observed: o.Vector()})
						}
					}
					for a := 0; a < 256; a++ {
						buf[0] = byte(a)
						try(string(buf[:1]))
						for b := 0; b < 256; b++ {
							buf[1] = byte(b)
							try(string(buf[:2]))
						}
					}
					mu.Lock()
					sets += ns
					mu.Unlock()
				}(m)
			}
			wgv.Wait()
		}
		var wg sync.WaitGroup
		nw := runtime.GOMAXPROCS(0)
		for w := 0; w < nw; w++ {
			wg.Add(1)
			go func(w int) {
				defer wg.Done()
				rng := rand.New(rand.NewSource(a.Seed*7919 + int64(w)))
				var n, ns int64
				bad := func(kind string, asg map[string]string, m, x string, exp, obs interface{}) {
					if !setsweepMine(prop, kind) {
						col.count("left to the other property: "+kind, 1)
						return
					}
					cp := map[string]string{}
					for k, y := range asg {
						cp[k] = y
					}
					col.violate(Violation{Property: prop, Kind: kind, Version: vn,
						Input: map[string]interface{}{"object": cp, "abv": m, "value": x}, Expected: exp, Observed: obs})
				}
				build := func(asg map[string]string, order []int) Obj {
					o := v.Zero()
					for _, i := range order {
						m := ord[i]
						if e := o.Set(m, asg[m]); e != nil {
							bad("Set refuses a legal value", asg, m, asg[m], "nil", v.ErrKind(e))
						}
					}
					return o
				}
				canonOrder := make([]int, len(ord))
				for i := range canonOrder {
					canonOrder[i] = i
				}
				for it := 0; it < N/nw+1; it++ {
					asg := map[string]string{}
					for _, m := range ord {
						vs := vals[m]
						if isOpt[m] && rng.Intn(3) == 0 {
							asg[m] = undef
						} else {
							asg[m] = vs[rng.Intn(len(vs))]
						}
					}
					base := build(asg, rng.Perm(len(ord)))
					n++
					p, msg := safely(func() {
						for _, m := range ord {
							g, e := base.Get(m)
							if e != nil || g != asg[m] {
								bad("Get differs from what Set wrote", asg, m, asg[m], asg[m], map[string]interface{}{"got": g, "error": v.ErrKind(e)})
							}
						}
						keep := base.Clone()
						for _, m := range ord {
							for _, x := range vals[m] {
								o := base.Clone()
								ns++
								if e := o.Set(m, x); e != nil {
									bad("Set refuses a legal value", asg, m, x, "nil", v.ErrKind(e))
									continue
								}
								for _, k := range ord {
									want := asg[k]
									if k == m {
										want = x
									}
									if g, e := o.Get(k); e != nil || g != want {
										bad("after a successful Set, Get differs from [o EXCEPT ![m] = v]", asg, m, x, map[string]string{k: want}, map[string]interface{}{k: g})
									}
								}
								if prop == "C07" {
									old := asg[m]
									asg[m] = x
									fresh := build(asg, canonOrder)
									asg[m] = old
									if !fresh.Same(o) {
										bad("objects holding the same metric values are not == (different histories)", asg, m, x, "==", "!=")
									}
								}
							}
							// two seeded illegal values per metric and object (all of them over the run)
							for t := 0; t < 2 && len(illegal[m]) > 0; t++ {
								x := illegal[m][rng.Intn(len(illegal[m]))]
								o := base.Clone()
								ns++
								if e := o.Set(m, x); e == nil {
									bad("Set accepts a value that is not a value of the metric", asg, m, x, "error", "nil")
									for _, k := range ord {
										want := asg[k]
										if k == m {
											want = x
										}
										if g, _ := o.Get(k); g != want {
											bad("Set reported success but Get(m) != v or another metric changed", asg, m, x, map[string]string{k: want}, map[string]interface{}{k: g})
										}
									}
								} else if !o.Same(base) {
									bad("a failed Set changed the object", asg, m, x, "unchanged", o.Vector())
								}
							}
						}
						if !base.Same(keep) {
							bad("Get / Clone changed the object", asg, "", "", "unchanged", base.Vector())
						}
					})
					if p {
						bad("a call panicked", asg, "", "", "no panic", msg)
					}
				}
				mu.Lock()
				total += n
				sets += ns
				mu.Unlock()
			}(w)
		}
		wg.Wait()
	}
	col.s.Evaluations = sets
	col.s.Distinct = total
	col.s.Nontrivial = total
	col.count("random full objects", total)
	col.count("Set calls with full frame comparison", sets)
	col.sample(map[string]interface{}{"objects": total, "set_calls": sets})
	col.write(a.Out)
}

// which finding belongs to which property: C09 = Set accepts exactly the metric's values, nothing panics, every Get
// of a reachable object is a legal value; C07 = what a successful / failed Set does to the object, and ==
func setsweepMine(prop, kind string) bool {
	c09 := map[string]bool{"Set refuses a legal value": true, "Set accepts a value that is not a value of the metric": true, "a call panicked": true}
	if prop == "C09" {
		return c09[kind]
	}
	return !c09[kind]
}

func init() { modes["setsweep"] = runSetSweep }
