package main

// Two concurrency probes whose expected values come from a sequential baseline of the same process
// (C14: a result is a function of the arguments and the receiver's value, whatever other goroutines do;
// the model grid for Rating):
//
// ratingconc (C15): every CPU calls Rating of the three packages on grid points of all bands at once;
//   every answer must be the model's ("@G" lines) - a shared scratch value inside Rating shows here.
// sharedread (C14, C16): the SAME objects are read by all CPUs at once through every read-only method
//   (Get of every metric, Vector, every score, Nomenclature); every answer must equal the answer the
//   object gave before the goroutines started, and the objects must be == their copies afterwards.
//   Under C16 only the Nomenclature answers are judged.

import (
	"encoding/json"
	"math/rand"
	"runtime"
	"sync"
)

func runRatingConc(a *args) {
	prop := a.Prop
	col := newCollector("ratingconc", prop)
	type gp struct {
		N int    `json:"n"`
		R string `json:"r"`
	}
	var pts []gp
	readTLCLines(a.In, "@G", func(raw []byte) {
		var g gp
		if json.Unmarshal(raw, &g) == nil {
			pts = append(pts, g)
		}
	})
	if len(pts) == 0 {
		fatal("ratingconc: no @G lines")
	}
	N := a.N
	if N <= 0 {
		N = 100000
	}
	G := runtime.GOMAXPROCS(0)
	var wg sync.WaitGroup
	var total int64
	var mu sync.Mutex
	for g := 0; g < G; g++ {
		wg.Add(1)
		go func(g int) {
			defer wg.Done()
			rng := rand.New(rand.NewSource(a.Seed*31 + int64(g)))
			vs := []string{"3.0", "3.1", "4.0"}
			var n int64
			for i := 0; i < N; i++ {
				p := pts[rng.Intn(len(pts))]
				vn := vs[rng.Intn(3)]
				v := versions[vn]
				x := float64(p.N) / 100
				r := "!panic"
				safely(func() {
					s, err := v.Rating(x)
					r = s
					if err != nil {
						if k := v.ErrKind(err); k.Kind == "bounds" && s == "" {
							r = "!bounds"
						} else {
							r = "!other:" + s + ":" + k.Kind
						}
					}
				})
				n++
				if r != p.R {
					col.violate(Violation{Property: prop, Kind: "Rating differs from the scale while other goroutines call Rating", Version: vn, Input: map[string]interface{}{"score": fmtF(x), "hundredths": p.N, "goroutines": G}, Expected: p.R, Observed: r})
				}
			}
			mu.Lock()
			total += n
			mu.Unlock()
		}(g)
	}
	wg.Wait()
	col.s.Evaluations = total
	col.s.Distinct = int64(len(pts))
	col.s.Nontrivial = int64(len(pts))
	col.count("concurrent Rating calls compared with the model grid", total)
	col.write(a.Out)
}

func runSharedRead(a *args) {
	prop := a.Prop
	col := newCollector("sharedread", prop)
	var tabs specTables
	if err := json.Unmarshal([]byte(a.Aux), &tabs); err != nil {
		fatal("sharedread: -aux must carry the spec tables: %v", err)
	}
	N := a.N
	if N <= 0 {
		N = 3000
	}
	G := runtime.GOMAXPROCS(0)
	rng := rand.New(rand.NewSource(a.Seed * 7))
	var total int64
	for _, vn := range verOrder {
		if prop == "C16" && vn != "4.0" {
			continue
		}
		v := versions[vn]
		ord, vals := tabs.Order[vn], tabs.Values[vn]
		type shared struct {
			o, copyOf Obj
			gets      []string
			vec       string
			scores    []float64
			nomen     string
		}
		var objs []*shared
		for k := 0; k < 24; k++ {
			o := v.Zero()
			for _, m := range ord {
				vs := vals[m]
				optional := vs[0] == "X" || vs[len(vs)-1] == "ND"
				if optional && rng.Intn(2) == 0 {
					continue // left undefined: defaults are resolved inside the scoring functions
				}
				o.Set(m, vs[rng.Intn(len(vs))])
			}
			s := &shared{o: o, copyOf: o.Clone()}
			if p, _ := safely(func() {
				for _, m := range ord {
					g, _ := o.Get(m)
					s.gets = append(s.gets, g)
				}
				s.vec = o.Vector()
				for _, sc := range v.Scores {
					s.scores = append(s.scores, o.Score(sc))
				}
				if vn == "4.0" {
					s.nomen = o.Nomenclature()
				}
			}); p {
				continue // a panic on a reachable object is C09's business
			}
			objs = append(objs, s)
		}
		var wg sync.WaitGroup
		var mu sync.Mutex
		for g := 0; g < G; g++ {
			wg.Add(1)
			go func(g int) {
				defer wg.Done()
				r := rand.New(rand.NewSource(a.Seed*97 + int64(g)))
				var n int64
				bad := func(s *shared, what string, exp, obs interface{}) {
					if prop == "C16" && what != "Nomenclature" {
						return
					}
					col.violate(Violation{Property: prop, Kind: "a read-only call on a shared object answers differently while other goroutines read the same object: " + what, Version: vn,
						Input: map[string]interface{}{"object": s.vec, "goroutines": G}, Expected: exp, Observed: obs})
				}
				for i := 0; i < N; i++ {
					s := objs[r.Intn(len(objs))]
					safely(func() {
						switch r.Intn(4) {
						case 0:
							j := r.Intn(len(ord))
							if got, _ := s.o.Get(ord[j]); got != s.gets[j] {
								bad(s, "Get "+ord[j], s.gets[j], got)
							}
						case 1:
							if got := s.o.Vector(); got != s.vec {
								bad(s, "Vector", s.vec, got)
							}
						case 2:
							j := r.Intn(len(v.Scores))
							if got := s.o.Score(v.Scores[j]); got != s.scores[j] {
								bad(s, "score "+v.Scores[j], fmtF(s.scores[j]), fmtF(got))
							}
						case 3:
							if vn == "4.0" {
								if got := s.o.Nomenclature(); got != s.nomen {
									bad(s, "Nomenclature", s.nomen, got)
								}
							}
						}
					})
					n++
				}
				mu.Lock()
				total += n
				mu.Unlock()
			}(g)
		}
		wg.Wait()
		if prop != "C16" {
			for _, s := range objs {
				if !s.o.Same(s.copyOf) {
					col.violate(Violation{Property: prop, Kind: "read-only calls changed a shared object", Version: vn, Input: s.vec, Expected: "== its copy", Observed: s.o.Vector()})
				}
			}
		}
	}
	col.s.Evaluations = total
	col.s.Distinct = total
	col.s.Nontrivial = total
	col.count("read-only calls on shared objects compared with the sequential baseline", total)
	col.write(a.Out)
}

func init() { modes["ratingconc"] = runRatingConc; modes["sharedread"] = runSharedRead }

// concset (C14): every CPU hammers Set / Get on its OWN objects with every (metric, legal value) pair of the
// version - calls that were first made once sequentially (whatever they answer alone is the baseline: a pair
// that misbehaves alone is C07 / C09 business and is skipped).  Under concurrency the same call on an object of
// the same value must answer the same: a spurious refusal, or a value stored wrongly because another
// goroutine's Set rewrote a shared scratch list in between, shows here.
func runConcSet(a *args) {
	prop := a.Prop
	col := newCollector("concset", prop)
	var tabs specTables
	if err := json.Unmarshal([]byte(a.Aux), &tabs); err != nil {
		fatal("concset: -aux must carry the spec tables: %v", err)
	}
	N := a.N
	if N <= 0 {
		N = 150000
	}
	G := runtime.GOMAXPROCS(0)
	var total int64
	var mu sync.Mutex
	for _, vn := range verOrder {
		v := versions[vn]
		ord, vals := tabs.Order[vn], tabs.Values[vn]
		type pair struct{ m, x string }
		var pairs []pair
		for _, m := range ord { // sequential baseline on the zero value
			for _, x := range vals[m] {
				o := v.Zero()
				okSeq := false
				safely(func() {
					if o.Set(m, x) == nil {
						g, e := o.Get(m)
						okSeq = e == nil && g == x
					}
				})
				if okSeq {
					pairs = append(pairs, pair{m, x})
				}
			}
		}
		if len(pairs) == 0 {
			continue
		}
		var wg sync.WaitGroup
		for g := 0; g < G; g++ {
			wg.Add(1)
			go func(g int) {
				defer wg.Done()
				r := rand.New(rand.NewSource(a.Seed*389 + int64(g)))
				o := v.Zero()
				var n int64
				for i := 0; i < N; i++ {
					p := pairs[r.Intn(len(pairs))]
					var err error
					var got string
					pan, msg := safely(func() {
						err = o.Set(p.m, p.x)
						got, _ = o.Get(p.m)
					})
					n++
					if pan || err != nil || got != p.x {
						col.violate(Violation{Property: prop, Kind: "Set / Get on an object of its own answers differently while other goroutines call Set (alone the same call succeeds)", Version: vn,
							Input: map[string]interface{}{"abv": p.m, "value": p.x, "goroutines": G}, Expected: map[string]interface{}{"error": "none", "get": p.x},
							Observed: map[string]interface{}{"error": v.ErrKind(err), "get": got, "panic": msg}})
					}
				}
				mu.Lock()
				total += n
				mu.Unlock()
			}(g)
		}
		wg.Wait()
	}
	col.s.Evaluations = total
	col.s.Distinct = total
	col.s.Nontrivial = total
	col.count("concurrent Set / Get calls compared with their sequential outcome", total)
	col.write(a.Out)
}

func init() { modes["concset"] = runConcSet }
