package main

// M2 for v2.0: all 139,968,000 assignments against the stage tables of MC_Score20.
// Every rounded stage is a SET of admissible tenths (two on an exact half); sets are composed
// exactly as the guide's equations compose the stages and the real score must be a member.

import (
	"encoding/json"
	"math/big"
	"runtime"
	"strings"
	"sync"
)

type mask [2]uint64 // tenths -2..100 -> bit (k+2)

func (m *mask) add(k int)     { m[(k+2)>>6] |= 1 << uint((k+2)&63) }
func (m mask) has(k int) bool { return k >= -2 && k <= 100 && m[(k+2)>>6]&(1<<uint((k+2)&63)) != 0 }
func (m *mask) or(o mask)     { m[0] |= o[0]; m[1] |= o[1] }
func (m mask) list() []int {
	var r []int
	for k := -2; k <= 100; k++ {
		if m.has(k) {
			r = append(r, k)
		}
	}
	return r
}

type v2tables struct {
	tabs   map[string]*idxTable
	vals   map[string][]string
	sev    map[string][]string
	base   [][]mask // ex -> imp
	adj    [][]mask // ex -> adj
	temp   [][]mask // k+2 -> t
	env    [][]mask // k+2 -> d
	expl   []*big.Rat
	impact []*big.Rat
}

func loadV2Tables(path string) *v2tables {
	tb := &v2tables{tabs: map[string]*idxTable{}}
	type rowJ struct {
		V   []json.RawMessage `json:"v"`
		Row [][]int           `json:"row"`
	}
	var rows []rowJ
	readTLCLines(path, "@", func(raw []byte) {
		switch raw[0] {
		case 'T':
			var hdr struct {
				Name string          `json:"name"`
				Keys []string        `json:"keys"`
				N    int             `json:"n"`
				Rows json.RawMessage `json:"rows"`
			}
			if err := json.Unmarshal(raw[1:], &hdr); err != nil {
				fatal("bad @T: %v", err)
			}
			switch hdr.Name {
			case "vals":
				json.Unmarshal(hdr.Rows, &tb.vals)
			case "sev":
				json.Unmarshal(hdr.Rows, &tb.sev)
			default:
				var rs []tblRow
				json.Unmarshal(hdr.Rows, &rs)
				t := &idxTable{Keys: hdr.Keys, N: hdr.N, Idx: map[string]int{}}
				for _, r := range rs {
					t.Idx[strings.Join(r.K, "|")] = r.I
				}
				tb.tabs[hdr.Name] = t
			}
		case 'R':
			var r rowJ
			if err := json.Unmarshal(raw[1:], &r); err != nil {
				fatal("bad @R: %v", err)
			}
			rows = append(rows, r)
		case 'B':
			var hdr struct {
				T    string    `json:"t"`
				Rows []bigDecJ `json:"rows"`
			}
			json.Unmarshal(raw[1:], &hdr)
			for _, b := range hdr.Rows {
				if hdr.T == "expl" {
					tb.expl = append(tb.expl, b.rat())
				} else {
					tb.impact = append(tb.impact, b.rat())
				}
			}
		}
	})
	str := func(r json.RawMessage) string { var s string; json.Unmarshal(r, &s); return s }
	num := func(r json.RawMessage) int { var n int; json.Unmarshal(r, &n); return n }
	mk := func(row [][]int) []mask {
		ms := make([]mask, len(row))
		for i, s := range row {
			for _, k := range s {
				ms[i].add(k)
			}
		}
		return ms
	}
	nEx := tb.tabs["exidx"].N
	tb.base = make([][]mask, nEx+1)
	tb.adj = make([][]mask, nEx+1)
	tb.temp = make([][]mask, 103)
	tb.env = make([][]mask, 103)
	for _, r := range rows {
		switch str(r.V[0]) {
		case "base":
			tb.base[num(r.V[1])] = mk(r.Row)
		case "adj":
			tb.adj[num(r.V[1])] = mk(r.Row)
		case "temp":
			tb.temp[num(r.V[1])+2] = mk(r.Row)
		case "env":
			tb.env[num(r.V[1])+2] = mk(r.Row)
		}
	}
	return tb
}

func (tb *v2tables) idx(name string, c map[string]string) int {
	t := tb.tabs[name]
	ks := make([]string, len(t.Keys))
	for i, k := range t.Keys {
		ks[i] = c[k]
	}
	i, ok := t.Idx[strings.Join(ks, "|")]
	if !ok {
		fatal("key %v missing in table %s", ks, name)
	}
	return i
}

func (tb *v2tables) tempOf(b mask, t int) mask {
	var r mask
	for _, k := range b.list() {
		r.or(tb.temp[k+2][t-1])
	}
	return r
}
func (tb *v2tables) envOf(at mask, d int) mask {
	var r mask
	for _, k := range at.list() {
		r.or(tb.env[k+2][d-1])
	}
	return r
}

func runSweep20(a *args) {
	prop := a.Prop
	col := newCollector("sweep20", prop)
	tb := loadV2Tables(a.In)
	v := versions["2.0"]
	stripe := a.N
	if stripe < 1 {
		stripe = 1
	}
	bm := []string{"AV", "AC", "Au", "C", "I", "A"}
	var outers []map[string]string
	var rec func(d int, cur map[string]string)
	rec = func(d int, cur map[string]string) {
		if d == len(bm) {
			c := map[string]string{}
			for k, x := range cur {
				c[k] = x
			}
			outers = append(outers, c)
			return
		}
		for _, x := range tb.vals[bm[d]] {
			cur[bm[d]] = x
			rec(d+1, cur)
		}
	}
	rec(0, map[string]string{})
	work := make(chan map[string]string, len(outers))
	for _, o := range outers {
		work <- o
	}
	close(work)
	var mu sync.Mutex
	counts := map[string]int64{}
	var wg sync.WaitGroup
	for w := 0; w < runtime.GOMAXPROCS(0); w++ {
		wg.Add(1)
		go func() {
			defer wg.Done()
			lc := map[string]int64{}
			for c := range work {
				o := v.Zero()
				for _, m := range bm {
					mustSet(o, m, c[m])
				}
				ex, imp := tb.idx("exidx", c), tb.idx("impidx", c)
				wb := tb.base[ex][imp-1]
				vio := func(kind, method string, want mask, got float64, msg string) {
					col.violate(Violation{Property: prop, Kind: kind, Version: "2.0", Input: o.Vector(),
						Expected: map[string]interface{}{"admissible_tenths": want.list()}, Observed: map[string]interface{}{"method": method, "score": fmtF(got), "panic": msg},
						Replay: map[string]interface{}{"mode": "score1", "ver": "2.0", "vector": o.Vector(), "method": method, "want_set": want.list()}})
				}
				member := func(got float64, want mask) bool {
					k, ok := isTenth(got, -2, 100)
					return ok && want.has(k)
				}
				var gb, gi, ge float64
				p, msg := safely(func() { gb = o.Score("base"); gi = o.Score("impact"); ge = o.Score("exploitability") })
				lc["base assignments"]++
				switch prop {
				case "C05":
					if p || !member(gb, wb) {
						vio("BaseScore differs from the guide equations", "base", wb, gb, msg)
					}
					if !p && !closeTo(ge, tb.expl[ex-1]) {
						col.violate(Violation{Property: prop, Kind: "Exploitability differs from the guide equation", Version: "2.0", Input: o.Vector(), Expected: tb.expl[ex-1].FloatString(12), Observed: fmtF(ge)})
					}
					if !p && !closeTo(gi, tb.impact[imp-1]) {
						col.violate(Violation{Property: prop, Kind: "Impact differs from the guide equation", Version: "2.0", Input: o.Vector(), Expected: tb.impact[imp-1].FloatString(12), Observed: fmtF(gi)})
					}
				case "C11", "C09":
					checkTenth(col, prop, v, o, "base", gb, p, msg, 0)
				case "C12":
					if !p {
						neighbours2(col, prop, tb, v, o, c, "base", bm, &lc)
					}
				}
				cnt := int64(0)
				for _, e := range tb.vals["E"] {
					c["E"] = e
					mustSet(o, "E", e)
					for _, rl := range tb.vals["RL"] {
						c["RL"] = rl
						mustSet(o, "RL", rl)
						for _, rc := range tb.vals["RC"] {
							c["RC"] = rc
							mustSet(o, "RC", rc)
							t := tb.idx("tidx", c)
							wt := tb.tempOf(wb, t)
							var gt float64
							p, msg := safely(func() { gt = o.Score("temporal") })
							lc["temporal assignments"]++
							switch prop {
							case "C05":
								if p || !member(gt, wt) {
									vio("TemporalScore differs from the guide equations", "temporal", wt, gt, msg)
								}
							case "C11", "C09":
								checkTenth(col, prop, v, o, "temporal", gt, p, msg, 0)
							case "C12":
								if !p { // a metric at ND has no successor in the severity order and is skipped by neighbours2 itself
									neighbours2(col, prop, tb, v, o, c, "temporal", []string{"AV", "AC", "Au", "C", "I", "A", "E", "RL", "RC"}, &lc)
								}
							}
							if prop == "C12" {
								continue
							}
							for _, cr := range tb.vals["CR"] {
								c["CR"] = cr
								mustSet(o, "CR", cr)
								for _, ir := range tb.vals["IR"] {
									c["IR"] = ir
									mustSet(o, "IR", ir)
									for _, ar := range tb.vals["AR"] {
										c["AR"] = ar
										mustSet(o, "AR", ar)
										adj := tb.idx("adjidx", c)
										wat := tb.tempOf(tb.adj[ex][adj-1], t)
										for _, cdp := range tb.vals["CDP"] {
											c["CDP"] = cdp
											for _, td := range tb.vals["TD"] {
												cnt++
												if stripe > 1 && (cnt+a.Seed)%int64(stripe) != 0 {
													continue
												}
												c["TD"] = td
												mustSet(o, "CDP", cdp)
												mustSet(o, "TD", td)
												we := tb.envOf(wat, tb.idx("didx", c))
												var gv float64
												p, msg := safely(func() { gv = o.Score("environmental") })
												lc["environmental assignments"]++
												switch prop {
												case "C05":
													if p || !member(gv, we) {
														vio("EnvironmentalScore differs from the guide equations", "environmental", we, gv, msg)
													}
												case "C11", "C09":
													// the literal environmental equation reaches -0.2 (pinned by C05): only finiteness / one decimal here
													if _, ok := isTenth(gv, -2, 100); p || !ok {
														col.violate(Violation{Property: prop, Kind: "score is not a finite one-decimal number", Version: "2.0", Input: o.Vector(),
															Expected: "k/10", Observed: map[string]interface{}{"method": "environmental", "score": fmtF(gv), "panic": msg}})
													}
												}
											}
										}
									}
								}
							}
							for _, m := range []string{"CDP", "TD", "CR", "IR", "AR"} {
								mustSet(o, m, "ND")
							}
						}
					}
				}
			}
			mu.Lock()
			for k, n := range lc {
				counts[k] += n
			}
			mu.Unlock()
		}()
	}
	wg.Wait()
	var total int64
	for k, n := range counts {
		col.s.Compared[k] = n
		total += n
	}
	col.s.Evaluations = total
	col.s.Distinct = total
	col.s.Nontrivial = total
	col.s.Info["stripe"] = stripe
	col.sample(map[string]interface{}{"class": "AV:N/AC:L/Au:N/C:C/I:C/A:C", "admissible_base_tenths": tb.base[tb.idx("exidx", map[string]string{"AV": "N", "AC": "L", "Au": "N"})][tb.idx("impidx", map[string]string{"C": "C", "I": "C", "A": "C"})-1].list()})
	col.write(a.Out)
}

func neighbours2(col *collector, prop string, tb *v2tables, v *Ver, o Obj, c map[string]string, meth string, metrics []string, lc *map[string]int64) {
	for _, m := range metrics {
		ord := tb.sev[m]
		pos := -1
		for i, x := range ord {
			if x == c[m] {
				pos = i
			}
		}
		if pos < 0 || pos+1 >= len(ord) {
			continue
		}
		o2 := o.Clone()
		mustSet(o2, m, ord[pos+1])
		var g1, g2 float64
		if p, _ := safely(func() { g1 = o.Score(meth); g2 = o2.Score(meth) }); p {
			continue
		}
		(*lc)["neighbour pairs"]++
		if g2 < g1 {
			col.violate(Violation{Property: prop, Kind: "more severe value lowers the score", Version: v.Name,
				Input:    map[string]interface{}{"vector": o.Vector(), "metric": m, "from": c[m], "to": ord[pos+1], "more_severe_vector": o2.Vector(), "method": meth},
				Expected: ">= " + fmtF(g1), Observed: fmtF(g2)})
		}
	}
}

func init() { modes["sweep20"] = runSweep20 }
