package main

// M2 for v3.0 / v3.1: complete sweep of base (2,592), temporal (259,200) and environmental
// (16,588,800) classes of each version against the stage tables TLC evaluated exactly
// (MC_Score3x). Composition mirrors the equations: Temporal = T[Base][E,RL,RC],
// Env = T[G[ver][MS'][miss(C',I',A',CR,IR,AR)][expl(AV',AC',PR',UI',S')]][E,RL,RC].

import (
	"encoding/json"
	"math"
	"math/big"
	"runtime"
	"strings"
	"sync"
)

type idxTable struct {
	Keys []string
	N    int
	Idx  map[string]int
}

type bigDecJ struct {
	Neg   bool  `json:"neg"`
	Mag   []int `json:"mag"`
	Scale int   `json:"scale"`
}

func (b bigDecJ) rat() *big.Rat {
	m := new(big.Int)
	p := big.NewInt(1)
	th := big.NewInt(1000)
	for _, l := range b.Mag {
		t := new(big.Int).Mul(big.NewInt(int64(l)), p)
		m.Add(m, t)
		p = new(big.Int).Mul(p, th)
	}
	if b.Neg {
		m.Neg(m)
	}
	d := new(big.Int).Exp(big.NewInt(10), big.NewInt(int64(b.Scale)), nil)
	return new(big.Rat).SetFrac(m, d)
}

type v3tables struct {
	tabs     map[string]*idxTable
	vals     map[string][]string
	sev      map[string][]string
	mod      map[string]string
	defaults map[string]string
	eff      map[string]map[string]string
	modOf    map[string]string
	base     map[string][][]int            // s -> ex -> iss row
	env      map[string]map[string][][]int // ver -> ms -> miss -> ex row
	temp     [][]int                       // k -> t row
	expl     []*big.Rat
	impact   map[string][]*big.Rat
}

func loadV3Tables(path string) *v3tables {
	tb := &v3tables{tabs: map[string]*idxTable{}, base: map[string][][]int{}, env: map[string]map[string][][]int{}, impact: map[string][]*big.Rat{}}
	type rowJ struct {
		V   []json.RawMessage `json:"v"`
		Row []int             `json:"row"`
	}
	var rows []rowJ
	readTLCLines(path, "@", func(raw []byte) {
		switch raw[0] {
		case 'T':
			var hdr struct {
				Name string          `json:"name"`
				Keys []string        `json:"keys"`
				N    int             `json:"n"`
				Rows json.RawMessage `json:"rows"`
			}
			if err := json.Unmarshal(raw[1:], &hdr); err != nil {
				fatal("bad @T: %v", err)
			}
			switch hdr.Name {
			case "vals":
				json.Unmarshal(hdr.Rows, &tb.vals)
			case "sev":
				json.Unmarshal(hdr.Rows, &tb.sev)
			case "mod":
				json.Unmarshal(hdr.Rows, &tb.mod)
			case "defaults":
				json.Unmarshal(hdr.Rows, &tb.defaults)
			case "eff":
				var er []effRow
				json.Unmarshal(hdr.Rows, &er)
				tb.eff = map[string]map[string]string{}
				tb.modOf = map[string]string{}
				for _, r := range er {
					if tb.eff[r.M] == nil {
						tb.eff[r.M] = map[string]string{}
					}
					tb.eff[r.M][r.B+"|"+r.X] = r.E
					tb.modOf[r.M] = r.MM
				}
			default:
				var rs []tblRow
				if err := json.Unmarshal(hdr.Rows, &rs); err != nil {
					fatal("bad rows of %s: %v", hdr.Name, err)
				}
				t := &idxTable{Keys: hdr.Keys, N: hdr.N, Idx: map[string]int{}}
				for _, r := range rs {
					t.Idx[strings.Join(r.K, "|")] = r.I
				}
				tb.tabs[hdr.Name] = t
			}
		case 'R':
			var r rowJ
			if err := json.Unmarshal(raw[1:], &r); err != nil {
				fatal("bad @R: %v", err)
			}
			rows = append(rows, r)
		case 'B':
			var hdr struct {
				T    string          `json:"t"`
				Rows json.RawMessage `json:"rows"`
			}
			json.Unmarshal(raw[1:], &hdr)
			if hdr.T == "expl" {
				var bs []bigDecJ
				json.Unmarshal(hdr.Rows, &bs)
				for _, b := range bs {
					tb.expl = append(tb.expl, b.rat())
				}
			} else {
				var m map[string][]bigDecJ
				json.Unmarshal(hdr.Rows, &m)
				for s, bs := range m {
					for _, b := range bs {
						tb.impact[s] = append(tb.impact[s], b.rat())
					}
				}
			}
		}
	})
	str := func(r json.RawMessage) string { var s string; json.Unmarshal(r, &s); return s }
	num := func(r json.RawMessage) int { var n int; json.Unmarshal(r, &n); return n }
	nEx, nMiss := tb.tabs["exidx"].N, tb.tabs["missidx"].N
	tb.temp = make([][]int, 101)
	for _, r := range rows {
		switch str(r.V[0]) {
		case "base":
			s := str(r.V[1])
			if tb.base[s] == nil {
				tb.base[s] = make([][]int, nEx+1)
			}
			tb.base[s][num(r.V[2])] = r.Row
		case "env":
			ver, ms := str(r.V[1]), str(r.V[2])
			if tb.env[ver] == nil {
				tb.env[ver] = map[string][][]int{}
			}
			if tb.env[ver][ms] == nil {
				tb.env[ver][ms] = make([][]int, nMiss+1)
			}
			tb.env[ver][ms][num(r.V[3])] = r.Row
		case "temp":
			tb.temp[num(r.V[1])] = r.Row
		}
	}
	return tb
}

func (tb *v3tables) idx(name string, c map[string]string) int {
	t := tb.tabs[name]
	ks := make([]string, len(t.Keys))
	for i, k := range t.Keys {
		ks[i] = c[k]
	}
	i, ok := t.Idx[strings.Join(ks, "|")]
	if !ok {
		fatal("key %v missing in table %s", ks, name)
	}
	return i
}

// expected scores (tenths) of an EFFECTIVE class c (base metrics already resolved)
func (tb *v3tables) expectBase(c map[string]string) int {
	return tb.base[c["S"]][tb.idx("exidx", c)][tb.idx("issidx", c)-1]
}
func (tb *v3tables) expectTemporal(c map[string]string, base int) int {
	return tb.temp[base][tb.idx("tidx", c)-1]
}
func (tb *v3tables) expectEnv(ver string, c map[string]string) int {
	pre := tb.env[ver][c["S"]][tb.idx("missidx", c)][tb.idx("exidx", c)-1]
	return tb.temp[pre][tb.idx("tidx", c)-1]
}

var v3base = []string{"AV", "AC", "PR", "UI", "S", "C", "I", "A"}
var v3req = []string{"CR", "IR", "AR"}
var v3temp = []string{"E", "RL", "RC"}

func closeTo(got float64, want *big.Rat) bool {
	w, _ := want.Float64()
	return math.Abs(got-w) <= 1e-12
}

func runSweep3x(a *args) {
	prop := a.Prop
	col := newCollector("sweep3x", prop)
	tb := loadV3Tables(a.In)
	stripe := a.N
	if stripe < 1 {
		stripe = 1
	}
	var mu sync.Mutex
	counts := map[string]int64{}
	for _, vn := range []string{"3.0", "3.1"} {
		v := versions[vn]
		// outer tuples over the 8 base metrics
		var outers []map[string]string
		var rec func(d int, cur map[string]string)
		rec = func(d int, cur map[string]string) {
			if d == len(v3base) {
				c := map[string]string{}
				for k, x := range cur {
					c[k] = x
				}
				outers = append(outers, c)
				return
			}
			for _, x := range tb.vals[v3base[d]] {
				cur[v3base[d]] = x
				rec(d+1, cur)
			}
		}
		rec(0, map[string]string{})
		work := make(chan map[string]string, len(outers))
		for _, o := range outers {
			work <- o
		}
		close(work)
		var wg sync.WaitGroup
		for w := 0; w < runtime.GOMAXPROCS(0); w++ {
			wg.Add(1)
			go func() {
				defer wg.Done()
				lc := map[string]int64{}
				for c := range work {
					o := v.Zero()
					for _, m := range v3base {
						mustSet(o, m, c[m])
					}
					vio := func(kind, method string, want int, got float64, msg string) {
						col.violate(Violation{Property: prop, Kind: kind, Version: vn, Input: o.Vector(),
							Expected: float64(want) / 10, Observed: map[string]interface{}{"method": method, "score": fmtF(got), "panic": msg},
							Replay: map[string]interface{}{"mode": "score1", "ver": vn, "vector": o.Vector(), "method": method, "want_tenths": want}})
					}
					// base + sub-scores
					wb := tb.expectBase(c)
					var gb, gi, ge float64
					p, msg := safely(func() { gb = o.Score("base"); gi = o.Score("impact"); ge = o.Score("exploitability") })
					lc["base classes"]++
					switch prop {
					case "C03":
						if p || gb != float64(wb)/10 {
							vio("BaseScore differs from the specification equations", "base", wb, gb, msg)
						}
						if !p && !closeTo(ge, tb.expl[tb.idx("exidx", c)-1]) {
							col.violate(Violation{Property: prop, Kind: "Exploitability differs from the specification equation", Version: vn, Input: o.Vector(),
								Expected: tb.expl[tb.idx("exidx", c)-1].FloatString(12), Observed: fmtF(ge)})
						}
						if !p && !closeTo(gi, tb.impact[c["S"]][tb.idx("issidx", c)-1]) {
							col.violate(Violation{Property: prop, Kind: "Impact differs from the specification equation", Version: vn, Input: o.Vector(),
								Expected: tb.impact[c["S"]][tb.idx("issidx", c)-1].FloatString(12), Observed: fmtF(gi)})
						}
					case "C11":
						checkTenth(col, prop, v, o, "base", gb, p, msg, 0)
					case "C12":
						if !p {
							neighbours3(col, prop, tb, v, o, c, []string{"base"}, v3base, &lc)
						}
					}
					cnt := int64(0)
					for _, e := range tb.vals["E"] {
						c["E"] = e
						mustSet(o, "E", e)
						for _, rl := range tb.vals["RL"] {
							c["RL"] = rl
							mustSet(o, "RL", rl)
							for _, rc := range tb.vals["RC"] {
								c["RC"] = rc
								mustSet(o, "RC", rc)
								wt := tb.expectTemporal(c, wb)
								var gt float64
								p, msg := safely(func() { gt = o.Score("temporal") })
								lc["temporal classes"]++
								switch prop {
								case "C03":
									if p || gt != float64(wt)/10 {
										vio("TemporalScore differs from the specification equations", "temporal", wt, gt, msg)
									}
								case "C11":
									checkTenth(col, prop, v, o, "temporal", gt, p, msg, 0)
								case "C12":
									if !p { // a metric at X has no successor in the severity order and is skipped by neighbours3 itself
										neighbours3(col, prop, tb, v, o, c, []string{"temporal"}, append(append([]string{}, v3base...), v3temp...), &lc)
									}
								}
								for _, cr := range tb.vals["CR"] {
									c["CR"] = cr
									mustSet(o, "CR", cr)
									for _, ir := range tb.vals["IR"] {
										c["IR"] = ir
										mustSet(o, "IR", ir)
										for _, ar := range tb.vals["AR"] {
											c["AR"] = ar
											cnt++
											if stripe > 1 && (cnt+a.Seed)%int64(stripe) != 0 {
												continue
											}
											mustSet(o, "AR", ar)
											we := tb.expectEnv(vn, c)
											var gv float64
											p, msg := safely(func() { gv = o.Score("environmental") })
											lc["environmental classes"]++
											switch prop {
											case "C03":
												if p || gv != float64(we)/10 {
													vio("EnvironmentalScore differs from the specification equations", "environmental", we, gv, msg)
												}
											case "C11":
												checkTenth(col, prop, v, o, "environmental", gv, p, msg, 0)
											case "C12":
												if vn == "3.1" && !p {
													neighbours3(col, prop, tb, v, o, c, []string{"environmental"}, append(append(append([]string{}, v3base...), v3temp...), v3req...), &lc)
												}
											}
										}
									}
								}
								mustSet(o, "CR", "X")
								mustSet(o, "IR", "X")
								mustSet(o, "AR", "X")
							}
						}
					}
				}
				mu.Lock()
				for k, n := range lc {
					counts[vn+" "+k] += n
				}
				mu.Unlock()
			}()
		}
		wg.Wait()
	}
	var total int64
	for k, n := range counts {
		col.s.Compared[k] = n
		total += n
	}
	col.s.Evaluations = total
	col.s.Distinct = total
	col.s.Nontrivial = total
	col.s.Info["stripe"] = stripe
	col.sample(map[string]interface{}{"class": "CVSS:3.1/AV:N/AC:L/PR:N/UI:N/S:U/C:H/I:H/A:H", "expected_base_tenths": tb.expectBase(map[string]string{"AV": "N", "AC": "L", "PR": "N", "UI": "N", "S": "U", "C": "H", "I": "H", "A": "H"})})
	col.write(a.Out)
}

func checkTenth(col *collector, prop string, v *Ver, o Obj, method string, got float64, p bool, msg string, lo int) {
	if prop == "C09" {
		// C09: every scoring function returns without panicking (what it returns is C03-C05 / C11 business)
		if p {
			col.violate(Violation{Property: prop, Kind: "scoring method panicked on a reachable object", Version: v.Name, Input: o.Vector(), Expected: "no panic", Observed: map[string]interface{}{"method": method, "panic": msg}})
		}
		return
	}
	k, ok := isTenth(got, lo, 100)
	if p || !ok {
		col.violate(Violation{Property: prop, Kind: "score is not a one-decimal number within the scale", Version: v.Name,
			Input: o.Vector(), Expected: "k/10 within the scale", Observed: map[string]interface{}{"method": method, "score": fmtF(got), "k": k, "panic": msg}})
		return
	}
	if v.Rating != nil && k >= 0 {
		if _, err := v.Rating(got); err != nil {
			col.violate(Violation{Property: prop, Kind: "Rating rejects a score the package produced", Version: v.Name,
				Input: o.Vector(), Expected: "nil error", Observed: map[string]interface{}{"method": method, "score": fmtF(got), "error": v.ErrKind(err)}})
		}
	}
}

// neighbours3: each metric one step more severe (next in the spec's SevOrder list) must not lower the scores
func neighbours3(col *collector, prop string, tb *v3tables, v *Ver, o Obj, c map[string]string, methods []string, metrics []string, lc *map[string]int64) {
	for _, m := range metrics {
		ord := tb.sev[m]
		pos := -1
		for i, x := range ord {
			if x == c[m] {
				pos = i
			}
		}
		if pos < 0 || pos+1 >= len(ord) {
			continue
		}
		o2 := o.Clone()
		mustSet(o2, m, ord[pos+1])
		for _, meth := range methods {
			var g1, g2 float64
			if p, _ := safely(func() { g1 = o.Score(meth); g2 = o2.Score(meth) }); p {
				continue
			}
			(*lc)["neighbour pairs"]++
			if g2 < g1 {
				col.violate(Violation{Property: prop, Kind: "more severe value lowers the score", Version: v.Name,
					Input:    map[string]interface{}{"vector": o.Vector(), "metric": m, "from": c[m], "to": ord[pos+1], "more_severe_vector": o2.Vector(), "method": meth},
					Expected: ">= " + fmtF(g1), Observed: fmtF(g2)})
			}
		}
	}
}

func init() { modes["sweep3x"] = runSweep3x }
