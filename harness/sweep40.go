package main

// M2 for v4.0: complete sweep of the 15,116,544 effective classes.
// TLC (MC_Score40, mode "views") prints the class -> part-index tables ("@T") and the score of
// every combination of part values ("@V"). The expected score of a class is a pure table
// composition: V[T1[av,pr,ui]][T2[ac,at]][T36[vc,vi,va,cr,ir,ar]][T4[sc,si,sa]][T5[e]].
// The harness builds a real object for every class and compares Score() with it.

import (
	"encoding/json"
	"fmt"
	"math"
	"runtime"
	"strings"
	"sync"
)

type tblRow struct {
	I int      `json:"i"`
	K []string `json:"k"`
}

type effRow struct {
	M  string `json:"m"`
	MM string `json:"mm"`
	B  string `json:"b"`
	X  string `json:"x"`
	E  string `json:"e"`
}

type v4tables struct {
	rank    map[string]map[string]int
	allvals map[string][]string
	eff     map[string]map[string]string // metric -> "b|x" -> effective
	modOf   map[string]string
	vals    map[string][]string
	t       map[string]map[string]int // table name -> key -> idx (1-based)
	n       map[string]int
	v       map[[5]int]int // view -> score tenths
	tie     map[[5]int]bool
}

func loadV4Tables(path string) *v4tables {
	tb := &v4tables{t: map[string]map[string]int{}, n: map[string]int{}, v: map[[5]int]int{}, tie: map[[5]int]bool{}}
	readTLCLines(path, "@", func(raw []byte) {
		switch raw[0] {
		case 'T':
			var hdr struct {
				Name string          `json:"name"`
				Rows json.RawMessage `json:"rows"`
				N    int             `json:"n"`
			}
			if err := json.Unmarshal(raw[1:], &hdr); err != nil {
				fatal("bad @T: %v", err)
			}
			switch hdr.Name {
			case "vals":
				if err := json.Unmarshal(hdr.Rows, &tb.vals); err != nil {
					fatal("bad vals: %v", err)
				}
				return
			case "allvals":
				if err := json.Unmarshal(hdr.Rows, &tb.allvals); err != nil {
					fatal("bad allvals: %v", err)
				}
				return
			case "rank":
				if err := json.Unmarshal(hdr.Rows, &tb.rank); err != nil {
					fatal("bad rank: %v", err)
				}
				return
			case "eff":
				var rows []effRow
				if err := json.Unmarshal(hdr.Rows, &rows); err != nil {
					fatal("bad eff: %v", err)
				}
				tb.eff = map[string]map[string]string{}
				tb.modOf = map[string]string{}
				for _, r := range rows {
					if tb.eff[r.M] == nil {
						tb.eff[r.M] = map[string]string{}
					}
					tb.eff[r.M][r.B+"|"+r.X] = r.E
					tb.modOf[r.M] = r.MM
				}
				return
			}
			var rows []tblRow
			if err := json.Unmarshal(hdr.Rows, &rows); err != nil {
				fatal("bad rows: %v", err)
			}
			m := map[string]int{}
			for _, r := range rows {
				m[strings.Join(r.K, "|")] = r.I
			}
			tb.t[hdr.Name] = m
			tb.n[hdr.Name] = hdr.N
		case 'V':
			var v struct {
				I   []int `json:"i"`
				S   int   `json:"s"`
				Tie bool  `json:"tie"`
			}
			if err := json.Unmarshal(raw[1:], &v); err != nil {
				fatal("bad @V: %v", err)
			}
			k := [5]int{v.I[0], v.I[1], v.I[2], v.I[3], v.I[4]}
			tb.v[k] = v.S
			tb.tie[k] = v.Tie
		}
	})
	for _, n := range []string{"T1", "T2", "T36", "T4", "T5"} {
		if len(tb.t[n]) == 0 {
			fatal("table %s missing in TLC output", n)
		}
	}
	return tb
}

// expected score (tenths) of an effective class given as map metric->value
func (tb *v4tables) view(c map[string]string) [5]int {
	return [5]int{
		tb.t["T1"][c["AV"]+"|"+c["PR"]+"|"+c["UI"]],
		tb.t["T2"][c["AC"]+"|"+c["AT"]],
		tb.t["T36"][c["VC"]+"|"+c["VI"]+"|"+c["VA"]+"|"+c["CR"]+"|"+c["IR"]+"|"+c["AR"]],
		tb.t["T4"][c["SC"]+"|"+c["SI"]+"|"+c["SA"]],
		tb.t["T5"][c["E"]],
	}
}

var v4metrics = []string{"AV", "AC", "AT", "PR", "UI", "E", "VC", "VI", "VA", "SC", "SI", "SA", "CR", "IR", "AR"}

// setEff makes the real object hold effective value val for metric m, using the base metric
// (Modified = X) except for Safety, which only MSI/MSA can express.
func setEff(o Obj, m, val string) {
	var err error
	if (m == "SI" || m == "SA") && val == "S" {
		err = o.Set("M"+m, "S")
	} else {
		if m == "SI" || m == "SA" {
			if e := o.Set("M"+m, "X"); e != nil {
				panic(e)
			}
		}
		err = o.Set(m, val)
	}
	if err != nil {
		panic(fmt.Sprintf("Set(%s,%s): %v", m, val, err))
	}
}

func isTenth(x float64, lo, hi int) (int, bool) {
	if math.IsNaN(x) || math.IsInf(x, 0) {
		return 0, false
	}
	k := math.Round(x * 10)
	if k < float64(lo) || k > float64(hi) {
		return int(k), false
	}
	return int(k), x == k/10
}

func runSweep40(a *args) {
	prop := a.Prop
	col := newCollector("sweep40", prop)
	tb := loadV4Tables(a.In)
	v := versions["4.0"]
	// index-based precomputation
	nv := make([]int, len(v4metrics))
	for i, m := range v4metrics {
		nv[i] = len(tb.vals[m])
	}
	// outer tuples: first 6 metrics
	type outer [6]int
	var outers []outer
	var rec func(d int, cur outer)
	rec = func(d int, cur outer) {
		if d == 6 {
			outers = append(outers, cur)
			return
		}
		for i := 0; i < nv[d]; i++ {
			cur[d] = i
			rec(d+1, cur)
		}
	}
	rec(0, outer{})
	stripe := 1
	if a.N > 1 {
		stripe = a.N
	}
	var total, ties, viewsSeen, pairs int64
	seenViews := map[[5]int]struct{}{}
	var mu sync.Mutex
	work := make(chan outer, len(outers))
	for _, o := range outers {
		work <- o
	}
	close(work)
	var wg sync.WaitGroup
	nworkers := runtime.GOMAXPROCS(0)
	if prop == "C17" {
		nworkers = 1 // allocation counts are process-wide: measure alone
	}
	for w := 0; w < nworkers; w++ {
		wg.Add(1)
		go func() {
			defer wg.Done()
			localViews := map[[5]int]struct{}{}
			var n, nt, n2 int64
			c := map[string]string{}
			for ot := range work {
				o := v.Zero()
				for d := 0; d < 6; d++ {
					m := v4metrics[d]
					c[m] = tb.vals[m][ot[d]]
					setEff(o, m, c[m])
				}
				idx := make([]int, 9)
				for d := 0; d < 9; d++ {
					m := v4metrics[6+d]
					c[m] = tb.vals[m][0]
					setEff(o, m, c[m])
				}
				cnt := int64(0)
				for {
					cnt++
					if stripe == 1 || (cnt+a.Seed)%int64(stripe) == 0 {
						vw := tb.view(c)
						want, ok := tb.v[vw]
						if !ok {
							fatal("view %v missing from TLC output", vw)
						}
						localViews[vw] = struct{}{}
						n++
						if tb.tie[vw] {
							nt++
						}
						var got float64
						p, msg := safely(func() { got = o.Score("score") })
						switch prop {
						case "C04":
							if p || got != float64(want)/10 {
								col.violate(Violation{Property: prop, Kind: "Score differs from the MacroVector algorithm", Version: "4.0",
									Input: o.Vector(), Expected: float64(want) / 10, Observed: map[string]interface{}{"score": fmtF(got), "panic": msg},
									Extra:  map[string]interface{}{"exact_tie": tb.tie[vw]},
									Replay: map[string]interface{}{"mode": "score1", "ver": "4.0", "vector": o.Vector(), "want_tenths": want}})
							}
						case "C17":
							if p {
								break
							}
							if n := minAllocs(3, nil, func() { sinkF = o.Score("score") }); n != 0 {
								col.violate(Violation{Property: prop, Kind: "allocation budget exceeded", Version: "4.0", Input: map[string]interface{}{"vector": o.Vector(), "call": "Score()"},
									Expected: map[string]interface{}{"allocs": 0, "exactly": true}, Observed: n})
							}
						case "C12":
							if p {
								break
							}
							// every metric one severity step up (rank - 1): the real score must not decrease
							for _, m := range v4metrics {
								r := tb.rank[m][c[m]]
								if r == 0 {
									continue
								}
								var up string
								for val, rr := range tb.rank[m] {
									if rr == r-1 {
										up = val
									}
								}
								if up == "" || ((m == "SI" || m == "SA") && up == "S" && false) {
									continue
								}
								o2 := o.Clone()
								setEff(o2, m, up)
								var got2 float64
								if p2, _ := safely(func() { got2 = o2.Score("score") }); p2 {
									continue
								}
								n2++
								if got2 < got {
									col.violate(Violation{Property: prop, Kind: "more severe value lowers the score", Version: "4.0",
										Input:    map[string]interface{}{"vector": o.Vector(), "metric": m, "from": c[m], "to": up, "more_severe_vector": o2.Vector()},
										Expected: ">= " + fmtF(got), Observed: fmtF(got2)})
								}
							}
						case "C11":
							k, ok := isTenth(got, 0, 100)
							if p || !ok {
								col.violate(Violation{Property: prop, Kind: "score is not a one-decimal number in 0..10", Version: "4.0",
									Input: o.Vector(), Expected: "k/10, 0<=k<=100", Observed: map[string]interface{}{"score": fmtF(got), "k": k, "panic": msg}})
							} else if _, err := v.Rating(got); err != nil {
								col.violate(Violation{Property: prop, Kind: "Rating rejects a score the package produced", Version: "4.0",
									Input: o.Vector(), Expected: "nil error", Observed: v.ErrKind(err)})
							}
						}
					}
					// odometer over the 9 inner metrics
					d := 8
					for d >= 0 {
						idx[d]++
						m := v4metrics[6+d]
						if idx[d] < nv[6+d] {
							c[m] = tb.vals[m][idx[d]]
							setEff(o, m, c[m])
							break
						}
						idx[d] = 0
						c[m] = tb.vals[m][0]
						setEff(o, m, c[m])
						d--
					}
					if d < 0 {
						break
					}
				}
			}
			mu.Lock()
			total += n
			ties += nt
			pairs += n2
			for k := range localViews {
				seenViews[k] = struct{}{}
			}
			mu.Unlock()
		}()
	}
	wg.Wait()
	viewsSeen = int64(len(seenViews))
	col.s.Evaluations = total
	col.s.Distinct = total
	col.s.Nontrivial = total
	col.s.Info["classes"] = total
	col.s.Info["exact_ties"] = ties
	col.s.Info["views_seen"] = viewsSeen
	col.s.Info["neighbour_pairs"] = pairs
	col.s.Info["views_in_model"] = len(tb.v)
	col.s.Info["stripe"] = stripe
	col.sample(map[string]interface{}{"class": "AV:N/AC:L/AT:N/PR:N/UI:N/VC:H/VI:H/VA:H/SC:H/SI:H/SA:H E:A CR:H IR:H AR:H", "expected_tenths": tb.v[tb.view(map[string]string{"AV": "N", "AC": "L", "AT": "N", "PR": "N", "UI": "N", "VC": "H", "VI": "H", "VA": "H", "SC": "H", "SI": "H", "SA": "H", "E": "A", "CR": "H", "IR": "H", "AR": "H"})]})
	col.write(a.Out)
}

func fmtF(x float64) string { return fmt.Sprintf("%v", x) }

func init() { modes["sweep40"] = runSweep40 }
