package main

// Watchdog: no exported function of the library may block.  Every 10 s the collector is run (it stamps every
// waiting goroutine with the time since which it waits) and all goroutine stacks are dumped; a goroutine that
// has been in a blocking state CONTINUOUSLY for a minute or more ("[sync.Mutex.Lock, 1 minutes]") with a frame
// of the library on its stack is a call that did not return - a lock left held on an error path, a channel
// nobody answers (a goroutine that merely contends for a lock runs in between and never accumulates a minute).
// The harness cannot finish such a run, so it writes a summary with ONE finding and exits: under the properties
// that say calls return (C01 ParseVector, C09 scoring / Get / Set, C14 dependence on what happened before) it is
// a violation, under any other property the run is inconclusive (exit 2) at once instead of after an hour.
// Not in the gate replay (library calls are parked in the hook on purpose) nor in the allocation modes (no
// forced collections there).

import (
	"fmt"
	"os"
	"regexp"
	"runtime"
	"strings"
	"time"
)

var goroutineHdr = regexp.MustCompile(`^goroutine (\d+) \[([^\],]+), (\d+) minutes\]:`)

func startWatchdog(mode, prop, out string) {
	if mode == "sched" || mode == "alloccases" || mode == "allocconc" || os.Getenv("VERIF_NOWATCHDOG") != "" {
		return
	}
	go func() {
		buf := make([]byte, 8<<20)
		for {
			time.Sleep(10 * time.Second)
			runtime.GC()
			n := runtime.Stack(buf, true)
			for _, g := range strings.Split(string(buf[:n]), "\n\n") {
				m := goroutineHdr.FindStringSubmatch(g)
				if m == nil || !strings.Contains(g, "github.com/pandatix/go-cvss/") {
					continue
				}
				st := m[2]
				if !(strings.HasPrefix(st, "semacquire") || strings.HasPrefix(st, "sync.Mutex") || strings.HasPrefix(st, "sync.RWMutex") ||
					strings.HasPrefix(st, "chan ") || strings.HasPrefix(st, "select") || strings.HasPrefix(st, "sync.Cond") || strings.HasPrefix(st, "sync.WaitGroup")) {
					continue
				}
				col := newCollector(mode, prop)
				kind := "a library call did not return: blocked inside the library for more than a minute (a lock left held, a channel nobody answers)"
				if len(g) > 1800 {
					g = g[:1800]
				}
				if prop == "C01" || prop == "C09" || prop == "C14" {
					col.violate(Violation{Property: prop, Kind: kind, Version: "", Input: "see the goroutine stack", Expected: "every call returns", Observed: g})
					col.write(out)
					os.Exit(0)
				}
				fmt.Fprintln(os.Stderr, "watchdog: "+kind+"\n"+g)
				os.Exit(2)
			}
		}
	}()
}
