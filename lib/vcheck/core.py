"""Shared infrastructure of the check driver."""
import json, os, re, shutil, subprocess, sys, tempfile, time, atexit, glob

VERIF = os.path.abspath(os.path.join(os.path.dirname(__file__), '..', '..'))
REPO = os.environ.get('VERIF_REPO', '/repo')   # (development aid; registered commands never set it)
SPEC = os.path.join(VERIF, 'spec')
HARNESS = os.path.join(VERIF, 'harness')
EVID = os.environ.get('VERIF_EVIDENCE_DIR') or os.path.join(VERIF, 'evidence')   # (override: development aid for mutant runs)
REPLAYS = os.path.join(EVID, 'replays')
NCPU = os.cpu_count() or 4


class Inconclusive(Exception):
    pass


class Ctx:
    """One invocation of bin/check."""

    def __init__(self, pid, tier, seed):
        self.pid, self.tier, self.seed = pid, tier, seed
        self.t0 = time.time()
        self.work = tempfile.mkdtemp(prefix='vcheck-%s-' % pid)
        atexit.register(lambda: shutil.rmtree(self.work, ignore_errors=True))
        self.vh = None
        self.hooks = False
        self.tlc_runs = []          # dicts: module, generated, distinct, wall
        self.notes = []

    # ---- Go harness -------------------------------------------------------
    def goenv(self):
        env = dict(os.environ)
        env.update(GOFLAGS='-mod=mod', GOPROXY='off', GOSUMDB='off', GOTOOLCHAIN='local',
                   GOCACHE=os.environ.get('GOCACHE', os.path.expanduser('~/.cache/go-build')))
        return env

    def build_harness(self, race=False):
        """Build /verif/harness against /repo's working tree. With the hook-binding file first; if
        /repo no longer has the hook symbols, without it (reduced coverage, never a violation)."""
        out = os.path.join(self.work, 'vh_race' if race else 'vh')
        src = os.path.join(self.work, 'hsrc_race' if race else 'hsrc')
        shutil.copytree(HARNESS, src, ignore=shutil.ignore_patterns('vh', 'vh_*'))
        shutil.copy(os.path.join(REPO, 'go.sum'), os.path.join(src, 'go.sum'))
        if REPO != '/repo':
            gm = os.path.join(src, 'go.mod')
            txt = open(gm).read().replace('=> /repo', '=> ' + REPO)
            open(gm, 'w').write(txt)
        for tags, hooks in (('verif,verifhooks', True), ('verif', False)):
            cmd = ['go', 'build', '-tags', tags] + (['-race'] if race else []) + ['-o', out, '.']
            p = subprocess.run(cmd, cwd=src, env=self.goenv(), capture_output=True, text=True)
            if p.returncode == 0:
                if not race:
                    self.vh, self.hooks = out, hooks
                if not hooks:
                    self.notes.append('hook symbols absent in /repo: hook-dependent parts skipped')
                return out
            err = p.stderr
        raise Inconclusive('harness does not build against /repo:\n' + err[-3000:])

    def harness(self, mode, timeout=3600, exe=None, env=None, **kw):
        """Run a harness mode; returns the parsed summary JSON."""
        out = os.path.join(self.work, 'sum-%s-%d.json' % (mode, len(os.listdir(self.work))))
        cmd = [exe or self.vh, mode, '-out', out, '-seed', str(kw.pop('seed', self.seed)), '-tier', kw.pop('tier', None) or self.tier]
        for k, v in kw.items():
            cmd += ['-' + k, str(v)]
        e = self.goenv()
        if env:
            e.update(env)
        try:
            p = subprocess.run(cmd, capture_output=True, text=True, timeout=timeout, env=e)
        except subprocess.TimeoutExpired:
            raise Inconclusive('harness %s timed out after %ds' % (mode, timeout))
        if p.returncode != 0 or not os.path.exists(out):
            raise Inconclusive('harness %s failed (rc=%d):\n%s' % (mode, p.returncode, (p.stderr or p.stdout)[-3000:]))
        s = json.load(open(out))
        s['_stderr'] = p.stderr[-2000:]
        return s

    # ---- TLC ----------------------------------------------------------------
    def specdir(self):
        d = os.path.join(self.work, 'spec')
        if not os.path.isdir(d):
            shutil.copytree(SPEC, d)
        return d

    def tlc(self, module, cfg, name=None, workers=None, timeout=3000, extra=None, simulate=None, heap=None):
        """Run TLC on spec/<module>.tla with the given cfg text. Returns dict with out path + counts.
        Any TLC error (invariant of the MODEL violated, parse error, ...) is Inconclusive: it means the
        specification is wrong, not the code."""
        d = self.specdir()
        name = name or module
        cfgp = os.path.join(d, name + '.cfg')
        open(cfgp, 'w').write(cfg)
        outp = os.path.join(self.work, name + '.tlc.out')
        md = os.path.join(self.work, 'md-' + name)
        cmd = ['timeout', str(timeout), 'tlc', '-workers', str(workers or NCPU), '-metadir', md,
               '-config', cfgp, '-nowarning']
        if simulate:
            cmd += ['-simulate', simulate]
        cmd += (extra or []) + [os.path.join(d, module + '.tla')]
        env = dict(os.environ)
        jtmp = os.path.join(self.work, 'jtmp')
        os.makedirs(jtmp, exist_ok=True)   # TLC unpacks its standard modules into java.io.tmpdir and leaves them there
        env['JAVA_TOOL_OPTIONS'] = (env.get('JAVA_TOOL_OPTIONS', '') + ' -Xss512m -Djava.io.tmpdir=' + jtmp + (' -Xmx' + heap if heap else '')).strip()
        t = time.time()
        with open(outp, 'w') as f:
            p = subprocess.run(cmd, cwd=d, env=env, stdout=f, stderr=subprocess.STDOUT)
        wall = time.time() - t
        shutil.rmtree(md, ignore_errors=True)
        gen = dist = 0
        tail = []
        errs = []
        with open(outp, errors='replace') as f:
            for line in f:
                if line.startswith('"@'):
                    continue
                if line.startswith('Error:') and len(errs) < 12:
                    errs.append(line)
                tail.append(line)
                if len(tail) > 400:
                    tail.pop(0)
                m = re.match(r'(\d+) states generated, (\d+) distinct states found', line)
                if m:
                    gen, dist = int(m.group(1)), int(m.group(2))
        txt = ''.join(tail)
        if p.returncode == 124:
            raise Inconclusive('TLC timed out on %s after %ds' % (name, timeout))
        if p.returncode < 0 or p.returncode == 137:
            raise Inconclusive('TLC was killed by a signal on %s (rc=%d; out of memory or an external kill)' % (name, p.returncode))
        ok = ('Model checking completed. No error has been found.' in txt) or (simulate and p.returncode == 0)
        if not ok or p.returncode != 0:
            keep = os.path.join(EVID, 'tlc-error-%s-%s.txt' % (self.pid, name))
            os.makedirs(EVID, exist_ok=True)
            open(keep, 'w').write(''.join(errs) + '\n...\n' + txt[-20000:])
            raise Inconclusive('TLC reported an error on the SPEC (%s, rc=%d); output kept in %s\n%s%s'
                               % (name, p.returncode, keep, ''.join(errs[:3]), txt[-800:]))
        r = dict(module=name, out=outp, generated=gen, distinct=dist, wall_s=round(wall, 1))
        self.tlc_runs.append(r)
        return r

    def states(self):
        return sum(r['distinct'] for r in self.tlc_runs), sum(r['generated'] for r in self.tlc_runs)


# ---- known findings ---------------------------------------------------------------
def load_known():
    p = os.path.join(VERIF, 'known_findings.json')
    if not os.path.exists(p):
        return []
    return json.load(open(p))


def _get(d, path):
    for k in path.split('.'):
        if not isinstance(d, dict) or k not in d:
            return None
        d = d[k]
    return d


def match_known(v, known):
    for k in known:
        if k.get('status') != 'known' or k.get('property') != v.get('property'):
            continue
        if all(_get(v, path) == want for path, want in k.get('match', {}).items()):
            return k
    return None


# ---- verdict + evidence -------------------------------------------------------------
def finish(ctx, level, coverage, violations, assumptions):
    """violations: list of violation dicts (from harness summaries). Writes evidence, prints verdict lines."""
    known = load_known()
    new, kn = [], {}
    for v in violations:
        k = match_known(v, known)
        if k is not None:
            kn.setdefault(k['id'], [k, 0])[1] += 1
        else:
            new.append(v)
    os.makedirs(REPLAYS, exist_ok=True)
    paths = []
    for i, v in enumerate(new[:20]):
        p = os.path.join(REPLAYS, '%s-%d-%d.json' % (ctx.pid, ctx.seed, i))
        json.dump(v, open(p, 'w'), indent=1)
        paths.append(p)
    cov = dict(coverage)
    st, gen = ctx.states()
    if level == 'model_checking':
        cov.setdefault('states', st)
        cov.setdefault('transitions', gen)
    cov['tlc_runs'] = [{k: r[k] for k in ('module', 'generated', 'distinct', 'wall_s')} for r in ctx.tlc_runs]
    cov['known_findings_seen'] = {kid: n for kid, (k, n) in kn.items()}
    if ctx.notes:
        cov['notes'] = ctx.notes
    ev = dict(property_id=ctx.pid, tier=ctx.tier, seed=ctx.seed, level=level, coverage=cov,
              assumptions=assumptions, wall_s=round(time.time() - ctx.t0, 1), violations=len(new))
    os.makedirs(EVID, exist_ok=True)
    json.dump(ev, open(os.path.join(EVID, ctx.pid + '.json'), 'w'), indent=1)
    for kid, (k, n) in sorted(kn.items()):
        print('KNOWN-FINDING: property=%s %s (%d cases this run; id=%s)' % (ctx.pid, k['what'], n, kid))
    if new:
        for v in new[:5]:
            print('  violation: %s | version=%s | input=%s | expected=%s | observed=%s' % (
                v.get('kind'), v.get('version'), json.dumps(v.get('input'))[:300],
                json.dumps(v.get('expected'))[:200], json.dumps(v.get('observed'))[:200]))
        print('VIOLATION property=%s replay=%s' % (ctx.pid, paths[0]))
        return 1
    print('OK property=%s tier=%s seed=%d wall=%.0fs %s' % (
        ctx.pid, ctx.tier, ctx.seed, time.time() - ctx.t0,
        ' '.join('%s=%s' % (k, cov[k]) for k in ('states', 'transitions', 'traces_validated_against_impl', 'evaluations') if k in cov)))
    return 0
