import argparse, json, os, sys, time, traceback
from . import core


def registry():
    from . import parsefam
    reg = {}
    reg.update(parsefam.CHECKS)
    for modname in ('objfam', 'scorefam', 'miscfam', 'poolfam'):
        try:
            mod = __import__('vcheck.' + modname, fromlist=['CHECKS'])
            reg.update(mod.CHECKS)
        except ImportError:
            pass
    return reg


def run(argv):
    ap = argparse.ArgumentParser(prog='check')
    ap.add_argument('pid')
    ap.add_argument('--tier', default=os.environ.get('VERIF_TIER', 'quick'), choices=['quick', 'thorough'])
    ap.add_argument('--replay', default=None)
    a = ap.parse_args(argv)
    try:
        seed = int(os.environ.get('VERIF_SEED', '1'))
    except ValueError:
        seed = 1
    seed = abs(seed) % 1000000
    reg = registry()
    if a.pid not in reg:
        print('no check registered for', a.pid)
        return 2
    ctx = core.Ctx(a.pid, a.tier, seed)
    try:
        if a.replay:
            return replay(ctx, a.replay)
        return reg[a.pid](ctx)
    except core.Inconclusive as e:
        print('INCONCLUSIVE property=%s: %s' % (a.pid, e))
        return 2
    except Exception:
        traceback.print_exc()
        print('INCONCLUSIVE property=%s: driver error' % a.pid)
        return 2


def replay(ctx, path):
    """Re-execute exactly one recorded violation against the current tree."""
    v = json.load(open(path))
    rec = v.get('replay')
    if not rec:
        print('replay file has no recipe')
        return 2
    ctx.build_harness()
    f = os.path.join(ctx.work, 'replay.in')
    if 'line' in rec:
        with open(f, 'w') as fh:
            fh.write(rec.get('prefix', '') + json.dumps(rec['line']) + '\n')
    else:
        json.dump(rec, open(f, 'w'))
    s = ctx.harness(rec['mode'], prop=v['property'], **{'in': f})
    if s['n_violations'] > 0:
        for x in s['violations'][:3]:
            print('  reproduced: %s | expected=%s | observed=%s' % (x['kind'], json.dumps(x['expected'])[:200], json.dumps(x['observed'])[:200]))
        print('VIOLATION property=%s replay=%s' % (v['property'], path))
        return 1
    print('replay: no violation on the current tree')
    return 0
