"""C15 (Rating), C16 (Nomenclature): small models + recorded traces validated by TLC."""
import json
from . import core
from .tracefam import record_and_validate

CFG_RATING = 'INIT Init\nNEXT Next\nINVARIANTS Total BoundsExact Monotone ChangesOnlyAtThresholds Scale Emit\nCHECK_DEADLOCK FALSE\n'
CFG_NOMEN = 'CONSTANTS\n Seed = %d\n K = %d\nINIT Init\nNEXT Next\nINVARIANTS TwoFormulations OnlyGroupsMatter EmitN\nCHECK_DEADLOCK FALSE\n'


def rating_check(ctx):
    ctx.build_harness()
    thorough = ctx.tier == 'thorough'
    r = ctx.tlc('MC_Rating', CFG_RATING, workers=4)
    s = ctx.harness('ratinggrid', prop='C15', **{'in': r['out']})
    viol = list(s['violations'])
    v2, st = record_and_validate(ctx, 'C15', n=200000 if thorough else 6000)
    viol += v2
    sc = ctx.harness('ratingconc', prop='C15', n=1000000 if thorough else 100000, **{'in': r['out']})   # every CPU inside Rating at once
    viol += sc['violations']
    for k in range(150 if thorough else 40):   # first Rating calls of fresh processes, made concurrently
        s0 = ctx.harness('coldstart', prop='C15', **{'in': r['out'], 'seed': ctx.seed * 100 + k})
        viol += s0['violations']
    cov = dict(traces_validated_against_impl=st['events'] + s['evaluations'], evaluations=st['events'] + s['evaluations'],
               distinct_nontrivial=s['distinct_nontrivial'] + st['events'] // 3,
               rule='(1) every hundredth -1.00..11.00 (TLC grid model: total, monotone, thresholds exact) replayed on the three packages; '
                    '(2) recorded Rating calls on all 101 one-decimal doubles, 3 float neighbours on each side of each and of every threshold, '
                    '+-0, +-Inf, +-MaxFloat64, subnormals, seeded random doubles of every exponent, each logged with its EXACT decimal expansion '
                    'and classified by the specification in TLC (Trace.tla); the three packages must agree with it',
               samples=s['samples'][:2] + st['samples'], compared=s['compared'], trace_files=st['files'], exhaustive=False)
    return core.finish(ctx, 'model_checking', cov, viol, [
        'the scale of C15 (half-open intervals between the specification bands) is spec/Rating.tla', 'NaN is never generated'])


def nomen_check(ctx):
    ctx.build_harness()
    thorough = ctx.tier == 'thorough'
    r = ctx.tlc('MC_Nomen', CFG_NOMEN % (ctx.seed, 40 if thorough else 6))
    s = ctx.harness('nomencases', prop='C16', **{'in': r['out']})
    viol = list(s['violations'])
    v2, st = record_and_validate(ctx, 'C16', n=5000 if thorough else 300)
    viol += v2
    from .objfam import spec_tables
    sh = ctx.harness('sharedread', prop='C16', aux=json.dumps(spec_tables(ctx)), n=30000 if thorough else 4000)   # Nomenclature while other goroutines read / score the same objects
    viol += sh['violations']
    cov = dict(traces_validated_against_impl=st['events'] + s['evaluations'], evaluations=st['events'] + s['evaluations'],
               distinct_nontrivial=s['distinct_nontrivial'],
               rule='TLC enumerates: no optional metric, each optional metric alone x each value (incl. explicit X), adjacent pairs, all, '
                    'seeded subsets, in 3 base contexts and with every supplemental metric x value; two formulations of the nomenclature '
                    'are checked equal; each case is built on the real code by Set and by ParseVector; plus recorded Set/Nomenclature '
                    'histories (metric defined then reset to X) validated by TLC',
               samples=s['samples'][:3] + st['samples'], compared=s['compared'], exhaustive=False)
    return core.finish(ctx, 'model_checking', cov, viol, ['metric groups of v4.0 as in spec/Metrics.tla'])


CHECKS = {'C15': rating_check, 'C16': nomen_check}


CFG_ALLOC = 'CONSTANTS\n Seed = %d\n K = %d\nINIT Init\nNEXT Next\nINVARIANTS LenVecExact FailsReallyFail EmitL\nCHECK_DEADLOCK FALSE\n'


def alloc_check(ctx):
    ctx.build_harness()
    thorough = ctx.tier == 'thorough'
    r = ctx.tlc('MC_Alloc', CFG_ALLOC % (ctx.seed, 12 if thorough else 2))
    s = ctx.harness('alloccases', prop='C17', **{'in': r['out']})
    viol17 = list(s['violations'])
    # Score() on a stripe of all v4 effective classes (the number of highest-severity combinations scanned depends on the MacroVector)
    from . import scorefam
    r40 = scorefam.tlc40(ctx)
    s40 = ctx.harness('sweep40', prop='C17', n=251 if thorough else 997, **{'in': r40['out']})
    viol17 += list(s40['violations'])
    s['compared']['Score() on a stripe of v4 classes'] = s40['evaluations']
    # the same budget while 8 goroutines are inside the same function at once (each on its own object)
    sc = ctx.harness('allocconc', prop='C17', tier=ctx.tier, **{'in': r['out']})
    viol17 += list(sc['violations'])
    s['compared'].update(sc['compared'])
    nmeas = sum(s['compared'].values())
    cov = dict(evaluations=nmeas, distinct_nontrivial=s['distinct_nontrivial'],
               rule='TLC (MC_Alloc) enumerates per version: base objects, each optional metric alone x each value (U:Clear/Green/Amber/Red '
                    'included), adjacent pairs, all, seeded objects; checks LenVec(o) = length of the canonical string (the pre-sizing '
                    'mechanism) and states the budget; the harness measures, per object, runtime.MemStats.Mallocs around Vector() (=1), '
                    'ParseVector of its vector (<=1, also right after each kind of failing parse), Get / Set legal / Set illegal on every metric '
                    '(=0), every scoring method, Rating, Nomenclature (=0); minimum over 12 (thorough 40) samples, GC off during a sample, '
                    'GOMAXPROCS(1); Set with illegal values of 19 length classes (0..5000 bytes) on every metric; average mallocs per call of Vector / ParseVector / score '
                    'with 8 goroutines inside the function at once (within 2% of the budget); distinct_nontrivial = objects measured',
               samples=s['samples'], compared=s['compared'], states=ctx.states()[0], transitions=ctx.states()[1],
               traces_validated_against_impl=s['distinct'], exhaustive=False)
    return core.finish(ctx, 'exploration', cov, viol17, [
        'toolchain = the installed go; hooks compiled in (tag verif) but idle',
        'the specification states the budget and the pre-sizing mechanism only; nothing is model-checked about the Go allocator'])


CHECKS['C17'] = alloc_check
