"""C01, C06, C08, C13, C18: the parser family (model MC_Parse, M1 call cases)."""
import json
from . import core
from .objfam import spec_tables

CFG = '''CONSTANTS
  Seed = %(seed)d
  K = %(K)d
  MaxDev = %(maxdev)d
  Vers = {"2.0", "3.0", "3.1", "4.0"}
  Fam = "%(fam)s"
  BigStep = %(big)s
INIT Init
NEXT Next
INVARIANTS
  RefinesGrammarJ
  RefinesMeaningJ
  NoUnset
  ErrIffReject
  CursorOK
  CatalogueAgrees
  CataloguedIsRejected
  AtMostOneAcceptor
  CanonIdempotent
  Emit
CHECK_DEADLOCK FALSE
'''

FAM = {'C01': 'all', 'C06': 'accepted', 'C08': 'accepted', 'C13': 'all', 'C18': 'defects'}

LEVEL_TEXT = {
    'C01': 'accept/reject of the four real parsers compared with the declarative grammar on every input TLC explored',
}


def parse_check(ctx):
    pid = ctx.pid
    ctx.build_harness()
    thorough = ctx.tier == 'thorough'
    cfg = CFG % dict(seed=ctx.seed, K=3 if thorough else 1, maxdev=2 if thorough else 1, fam=FAM[pid], big='TRUE')
    r = ctx.tlc('MC_Parse', cfg, name='MC_Parse_' + pid)
    s = ctx.harness('parsecases', prop=pid, **{'in': r['out']})
    viol = list(s['violations'])
    extra = {}
    if pid == 'C18':
        # Get / Set clauses: unknown abbreviation -> *ErrInvalidMetric{abv}, illegal value -> ErrInvalidMetricValue
        from . import objfam
        r3, s3 = objfam.obj_edges(ctx, 'C18')
        viol += list(s3['violations'])
        extra['get_set_calls_compared'] = s3['compared']
    if pid in ('C01', 'C06') and ctx.hooks:
        # the same obligations under every interleaving of two v2.0 calls around the pooled buffer (M4 gate replay)
        from . import poolfam
        rp = ctx.tlc('MC_Pool', poolfam.cfg(ctx, coarse=True, det=True, hist=True, n=8 if not thorough else 12), name='MC_Pool_sched_' + pid, timeout=6000)
        sp = ctx.harness('sched', prop=pid, **{'in': rp['out']})
        viol += list(sp['violations'])
        extra['gate_replay'] = dict(sp['compared'], schedules=sp['info'].get('schedules', 0))
    if pid in ('C01', 'C06', 'C08'):
        # every combination of mandatory metric values of every version, canonical, alone and with optional metrics
        import json
        from .objfam import spec_tables
        sb = ctx.harness('basesweep', prop=pid, aux=json.dumps(spec_tables(ctx)))
        viol += list(sb['violations'])
        extra['canonical_base_vectors'] = dict(sb['compared'], vectors=sb['evaluations'])
    if pid in ('C01', 'C06'):
        # v2: every combination of optional metrics; v3/v4: large seeded families of full assignments
        sr = ctx.harness('rndsweep', prop=pid, aux=json.dumps(spec_tables(ctx)), n=1500000 if thorough else 150000)
        viol += list(sr['violations'])
        extra['assignment_sweep_vectors'] = sr['evaluations']
    if pid in ('C01', 'C13'):
        # the verdicts again, from many goroutines at once
        sc = ctx.harness('concmatrix', prop=pid, n=400000 if thorough else 40000, **{'in': r['out']})
        viol += list(sc['violations'])
        extra['verdicts_under_concurrency'] = sc['evaluations']
    if pid in ('C01', 'C18'):
        # every 1-3 letter string that is not an abbreviation of the version (legal set from the spec)
        import json
        from .objfam import spec_tables
        sa = ctx.harness('abvsweep', prop=pid, aux=json.dumps(spec_tables(ctx)))
        viol += list(sa['violations'])
        extra['abbreviation_sweep'] = dict(sa['compared'], strings=sa['distinct'])
    if pid in ('C01', 'C06', 'C08'):
        # M3: recorded calls on byte-level mutants / random histories, validated event by event by TLC (Trace.tla)
        from . import tracefam
        tv, tst = tracefam.api_traces(ctx, pid, 40000 if thorough else 1600)
        viol += tv
        extra['recorded_events_validated_by_TLC'] = tst['events']
        extra['trace_rejections_of_other_properties'] = tst['rejections_belonging_to_other_properties']
    if thorough or pid == 'C01':
        # small-step run: every cursor state of the automata is a TLC state; the walk terminates
        cfg2 = CFG % dict(seed=ctx.seed, K=1, maxdev=1, fam='defects', big='FALSE')
        cfg2 = cfg2.replace('  Emit\n', '')
        if not thorough:
            cfg2 = cfg2.replace('Vers = {"2.0", "3.0", "3.1", "4.0"}', 'Vers = {"2.0", "3.1", "4.0"}')
        else:
            # liveness (thorough only: it triples the time of the quick run): under weak fairness every call reaches pc = "done"
            cfg2 = cfg2.replace('INIT Init\nNEXT Next\n', 'SPECIFICATION Spec\n').replace('CHECK_DEADLOCK FALSE', 'PROPERTY Terminates\nCHECK_DEADLOCK FALSE')
            extra['liveness_checked'] = 'Terminates == <>(ps.pc = "done") under WF_vars(Next), whole small-step state graph'
        r2 = ctx.tlc('MC_Parse', cfg2, name='MC_Parse_small_' + pid)
        extra['small_step_states'] = r2['distinct']
    cov = dict(
        traces_validated_against_impl=s['evaluations'],
        evaluations=s['evaluations'], distinct_nontrivial=s['distinct_nontrivial'],
        rule='inputs = spine element lists of each version (k-th-value objects, base-only, seeded random/sparse, '
             'v3 permutations, v4 optional subsets, v2 group shapes) with at most one deviation (replace by any token of the '
             'alphabets, insert, delete, duplicate, swap, truncate, header/tail variant), concretised to bytes by TLC; '
             'distinct = distinct byte strings; non-trivial = not an undeviated spine',
        samples=s['samples'], compared=s['compared'], exhaustive=False)
    cov.update(extra)
    return core.finish(ctx, 'model_checking', cov, viol, [
        'TLC model MC_Parse: operational parser models refine the declarative grammar on the explored family (checked in this run)',
        'metric tables in spec/Metrics.tla transcribed from the FIRST documents',
        'bytes outside the token alphabets and inputs with two or more deviations are covered only by the trace-validation tier',
    ])


CHECKS = {p: parse_check for p in FAM}
