"""C14: no dependence on history, interleaving or aliasing (model Pool / MC_Pool, M4 gate replay, M3 under -race)."""
import json, os, subprocess
from . import core
from .tracefam import record_and_validate
from .objfam import spec_tables

CFG = '''CONSTANTS
  G = %(G)s
  Variant = "%(variant)s"
  Coarse = %(coarse)s
  ReadGroups = %(groups)d
  DetPool = %(det)s
  Hist = %(hist)s
  NInputs = %(n)d
  Seed = %(seed)d
  K = 1
%(spec)s
INVARIANTS ExclusiveOwnership OwnerConsistent ResultIsSequential %(emit)s
%(live)s
CHECK_DEADLOCK FALSE
'''


def cfg(ctx, G='{1, 2}', variant='ok', coarse=False, det=False, hist=False, n=12, groups=3):
    return CFG % dict(G=G, variant=variant, coarse=str(coarse).upper(), det=str(det).upper(), hist=str(hist).upper(), n=n, groups=groups,
                      seed=ctx.seed, emit='EmitSchedule' if hist else '',
                      # without the schedule in the state (Hist = FALSE) the graph is small: all interleavings are checked under
                      # SPECIFICATION Spec (weak fairness) with the liveness property "every call terminates"
                      spec='INIT Init\nNEXT Next' if hist else 'SPECIFICATION Spec', live='' if hist else 'PROPERTY Terminates')


def pool_check(ctx):
    thorough = ctx.tier == 'thorough'
    ctx.build_harness()
    viol, cov = [], dict(compared={}, samples=[])
    # (a) the design: all interleavings at single-step granularity, any pooled-or-fresh buffer
    ctx.tlc('MC_Pool', cfg(ctx), name='MC_Pool_fine')
    if thorough:
        ctx.tlc('MC_Pool', cfg(ctx, G='{1, 2, 3}', n=5), name='MC_Pool_fine3', timeout=6000)
    # (b) schedules (coarse steps, with history) forced on the real code through the gate hooks
    r = ctx.tlc('MC_Pool', cfg(ctx, coarse=True, det=True, hist=True, n=12 if thorough else 8), name='MC_Pool_sched', timeout=6000)
    if ctx.hooks:
        ptrace = os.path.join(ctx.work, 'pooltrace.ndjson')
        s = ctx.harness('sched', prop='C14', aux=ptrace, **{'in': r['out']})
        viol += s['violations']
        cov['compared']['gate replay'] = dict(s['compared'], schedules=s['info'].get('schedules', 0))
        # the recorded hook events of every 8th schedule, validated by TLC against the Pool discipline (TracePool.tla)
        from concurrent.futures import ThreadPoolExecutor
        from . import tracefam
        files = tracefam.split_runs(ptrace, core.NCPU)
        with ThreadPoolExecutor(max_workers=core.NCPU) as ex:
            res = list(ex.map(lambda a: tracefam.validate_one(ctx, a[1], 100 + a[0], module='TracePool', cfg=tracefam.CFG_POOL), enumerate(files)))
        nev = 0
        for rr in res:
            nev += rr['events']
            ctx.tlc_runs.append(dict(module='TracePool', out=rr['trace'], generated=rr['generated'], distinct=rr['distinct'], wall_s=rr['wall_s']))
            lines = open(rr['trace']).read().splitlines()
            for b in rr['bad']:
                if 'the sequential specification' in b['why']:
                    # the RESULT of the call against the specification: decided by the gate replay above, which also
                    # asks whether the outcome depends on the context (a deterministic deviation is C01 / C06 business)
                    cov['compared']['ret events differing from the sequential specification (decided by the gate replay)'] = \
                        cov['compared'].get('ret events differing from the sequential specification (decided by the gate replay)', 0) + 1
                    continue
                # the whole run the event belongs to
                i = b['line'] - 1
                a0 = max(j for j in range(i + 1) if '"ev":"reset"' in lines[j])
                viol.append(dict(property='C14', kind='recorded hook event is not a behaviour of the Pool specification: ' + b['why'], version='2.0',
                                 input=dict(event=json.loads(lines[i]), run=[json.loads(x) for x in lines[a0:i + 1]][-12:]),
                                 expected='see spec/TracePool.tla', observed=b['why'], replay=dict(mode='pooltrace')))
        cov['compared']['hook events validated by TLC (TracePool)'] = nev
        cov['samples'] += s['samples'][:2]
        nsched = s['info'].get('schedules', 0)
        if thorough:
            r3 = ctx.tlc('MC_Pool', cfg(ctx, G='{1, 2, 3}', coarse=True, det=True, hist=True, n=3, groups=1), name='MC_Pool_sched3', timeout=6000)
            s3 = ctx.harness('sched', prop='C14', n=1, **{'in': r3['out']})
            viol += s3['violations']
            nsched += s3['info'].get('schedules', 0)
            cov['compared']['gate replay, 3 goroutines'] = dict(s3['compared'], schedules=s3['info'].get('schedules', 0))
    else:
        nsched = 0
        ctx.notes.append('gate replay skipped: hook symbols absent')
    # (c) sequential histories: all ordered pairs and triples of the 12 inputs, one goroutine, no hooks
    r1 = ctx.tlc('MC_Pool', cfg(ctx, G='{1}', coarse=True, det=True, hist=True, n=12), name='MC_Pool_single', workers=2)
    s = ctx.harness('seqhist', prop='C14', **{'in': r1['out']})
    viol += s['violations']
    cov['compared']['sequential histories'] = dict(s['compared'], histories=s['distinct'])
    nhist = s['distinct']
    # (d) aliasing: Vector() strings stay intact, copies independent
    tabs = spec_tables(ctx)
    s = ctx.harness('aliasing', prop='C14', aux=json.dumps(tabs), n=20000 if thorough else 1500)
    viol += s['violations']
    cov['compared']['aliasing'] = s['compared']
    cov['samples'] += s['samples'][:1]
    # (f) same argument / same receiver, same result: repeated calls, and scores repeated after scoring a neighbour
    from . import parsefam, scorefam
    rp = ctx.tlc('MC_Parse', parsefam.CFG % dict(seed=ctx.seed, K=1, maxdev=1, fam='defects', big='TRUE'), name='MC_Parse_C14')
    s = ctx.harness('parsecases', prop='C14', **{'in': rp['out']})
    viol += s['violations']
    cov['compared']['repeated ParseVector calls'] = s['compared']
    for mode, tl in (('lift40', scorefam.tlc40), ('lift3x', scorefam.tlc3x), ('lift20', scorefam.tlc20)):
        rr = tl(ctx)
        s = ctx.harness(mode, prop='C14', n=400 if thorough else 40, **{'in': rr['out']})
        viol += s['violations']
        cov['compared'][mode + ': scores repeated after scoring a neighbour'] = s['compared']
    # (g) the same objects evaluated in three different orders in three separate processes: the dumps must be equal
    dumps = {}
    for order in ('fwd', 'rev', 'shuffle'):
        dp = os.path.join(ctx.work, 'dump-%s.json' % order)
        s = ctx.harness('nbrdump', prop='C14', tier=order, aux=json.dumps(tabs), n=120 if thorough else 30, **{'in': dp})
        viol += s['violations']
        dumps[order] = json.load(open(dp))
    ndiff = 0
    for key, val in dumps['fwd'].items():
        for order in ('rev', 'shuffle'):
            if dumps[order].get(key) != val:
                ndiff += 1
                if ndiff <= 10:
                    viol.append(dict(property='C14', kind='a result depends on what was evaluated before it in the process', version=key.split(' ')[0],
                                     input=dict(object=key, orders=['fwd', order]), expected=val, observed=dumps[order].get(key),
                                     replay=dict(mode='nbrdump-compare')))
    cov['compared']['objects evaluated in 3 orders in 3 processes'] = len(dumps['fwd'])
    # (e) free-running goroutines under the race detector, every call validated against the sequential spec
    race = ctx.build_harness(race=True)
    v2, st = record_and_validate(ctx, 'C14', n=60000 if thorough else 2400, tier='concurrent', exe=race)
    # C14 is dependence on context: a rejected event is its business when an object changed between two of its own
    # calls, or when the same call made again ALONE (harness mode retrace) gives another outcome than the one
    # recorded under concurrency; an outcome that comes out again alone deviates from the specification
    # deterministically and belongs to the property that pins it (counted, not reported here)
    CONTEXT = ('object changed between two of its own calls', 'Vector() changed the object', 'scoring changed the object', 'Get changed the object')
    noev = lambda v: not isinstance(v.get('replay'), dict) or 'event' not in v['replay']   # e.g. a call that never returned
    mine = [v for v in v2 if noev(v) or any(k in v['kind'] for k in CONTEXT)]
    rest = [v for v in v2 if not noev(v) and not any(k in v['kind'] for k in CONTEXT)]
    if rest:
        evp = os.path.join(ctx.work, 'retrace-in.json')
        json.dump([v['replay']['event'] for v in rest[:2000]], open(evp, 'w'))
        rr = ctx.harness('retrace', prop='C14', aux=json.dumps(tabs), **{'in': evp})
        rep = rr['info'].get('reproduced', [])
        for v, same in zip(rest, rep):
            if not same:
                v['kind'] += ' (and the same call made alone gives another outcome)'
                mine.append(v)
        cov['compared']['rejected events that come out the same when made alone (left to the property that pins them)'] = sum(1 for x in rep if x)
    viol += mine
    racelog = st.get('stderr', '')
    cov['compared']['concurrent recorded events validated by TLC'] = st['events']
    cov['samples'] += st['samples'][:1]
    if 'DATA RACE' in racelog:
        os.makedirs(core.EVID, exist_ok=True)
        p = os.path.join(core.EVID, 'race-report-C14.txt')
        open(p, 'w').write(racelog)
        viol.append(dict(property='C14', kind='data race reported by the Go race detector', version='', input='8 goroutines driving all exported functions of all four packages',
                         expected='no race', observed=racelog[:1500], replay=dict(mode='race', report=p)))
    # (j) every CPU calls Set / Get on its own objects with every (metric, legal value) pair
    cs = ctx.harness('concset', prop='C14', aux=json.dumps(tabs), n=1500000 if thorough else 150000)
    viol += cs['violations']
    cov['compared']['concurrent Set / Get calls'] = cs['evaluations']
    # (i) shared read-only objects: every CPU reads the SAME objects through every read-only method; plain and -race build
    for exe in (None, race):
        sr = ctx.harness('sharedread', prop='C14', aux=json.dumps(tabs), exe=exe, n=(30000 if thorough else 4000) // (1 if exe is None else 4), env={'GORACE': 'exitcode=0 halt_on_error=0'})
        viol += sr['violations']
        cov['compared']['read-only calls on shared objects' + ('' if exe is None else ' (race build)')] = sr['evaluations']
        if 'DATA RACE' in sr.get('_stderr', ''):
            os.makedirs(core.EVID, exist_ok=True)
            pth = os.path.join(core.EVID, 'race-report-C14.txt')
            open(pth, 'w').write(sr['_stderr'])
            viol.append(dict(property='C14', kind='data race reported by the Go race detector', version='', input='every CPU reading the same objects through Get / Vector / scores / Nomenclature',
                             expected='no race', observed=sr['_stderr'][:1500], replay=dict(mode='race', report=pth)))
    # (h) parse-and-hold: results kept by their owners while every CPU parses valid and failing vectors; plain and -race build
    for exe, label in ((None, 'held parse results re-read under concurrency'), (race, 'the same under the race detector')):
        sh = ctx.harness('conchold', prop='C14', aux=json.dumps(tabs), exe=exe, n=(400000 if thorough else 60000) // (1 if exe is None else 4),
                         env={'GORACE': 'exitcode=0 halt_on_error=0'})
        viol += sh['violations']
        cov['compared'][label] = sh['evaluations']
        if 'DATA RACE' in sh.get('_stderr', ''):
            os.makedirs(core.EVID, exist_ok=True)
            p = os.path.join(core.EVID, 'race-report-C14.txt')
            open(p, 'w').write(sh['_stderr'])
            viol.append(dict(property='C14', kind='data race reported by the Go race detector', version='', input='every CPU parsing valid and failing vectors and re-reading the results it holds',
                             expected='no race', observed=sh['_stderr'][:1500], replay=dict(mode='race', report=p)))
    cov.update(traces_validated_against_impl=nsched + nhist + st['events'], evaluations=nsched + nhist + st['events'],
               distinct_nontrivial=nsched + nhist,
               rule='TLC explores every interleaving of 2 (thorough: 3) v2.0 ParseVector calls around the pooled buffer at single-step '
                    'granularity (inputs: 12 vectors incl. truncated / trailing-separator / over-long ones, pool initially holding a stale '
                    'full buffer; buffer choice nondeterministic) and checks exclusive ownership and result = sequential specification; the '
                    'same model at gate granularity (get, split, first read, middle read, put) prints every schedule, each forced on the real '
                    'code with blocking hooks under GOMAXPROCS(1); plus all ordered pairs/triples of the inputs back to back, Vector() string '
                    'immutability, copy independence, and 8 free-running goroutines under -race with every event validated by Trace.tla',
               exhaustive=False)
    return core.finish(ctx, 'model_checking', cov, viol, [
        'hooks in 20/cvss20.go (build tag verif) mark get/split/read/put of the pooled buffer',
        'the Go memory model itself is observed only through the race detector',
        'v3/v4 packages have no shared state in the specification; they are covered by the free-running and aliasing parts'])


CHECKS = {'C14': pool_check}
