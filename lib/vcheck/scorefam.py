"""C03, C04, C05, C10, C11, C12: the scoring family (models MC_Score40 / MC_Score3x / MC_Score20, M2 oracle tables)."""
from . import core

CFG40V = 'CONSTANTS\n Mode = "views"\n Stripe = 1\n Phase = 0\nINIT Init\nNEXT Next\nINVARIANTS ViewInRange EmitView\nCHECK_DEADLOCK FALSE\n'
CFG40C = 'CONSTANTS\n Mode = "classes"\n Stripe = 144\n Phase = %d\nINIT Init\nNEXT Next\nINVARIANTS ClassesOK\nCHECK_DEADLOCK FALSE\n'
CFG3X = 'INIT Init\nNEXT Next\nINVARIANTS InRange RoundupsAgree MissCap TempBelow Emit\nCHECK_DEADLOCK FALSE\n'
CFG20 = 'INIT Init\nNEXT Next\nINVARIANTS InRange BaseNonNeg SetsSmall Emit\nCHECK_DEADLOCK FALSE\n'

ASSUME = [
    'scoring data in spec/ (weights, lookup table, highest-severity vectors, depths) transcribed from the FIRST documents; the 270-entry lookup additionally equals the independent copy in hdonnay/claircore',
    'TLC evaluates the equations exactly (BigDec for v2/v3, integer fractions for v4); stage invariants checked in this run',
    'real objects for effective classes are built with Set (verified by C07); realisations with Modified metrics are covered by the lifting families (C10)',
]


def tlc40(ctx):
    return ctx.tlc('MC_Score40', CFG40V, name='MC_Score40_views')


def tlc3x(ctx):
    return ctx.tlc('MC_Score3x', CFG3X)


def tlc20(ctx):
    return ctx.tlc('MC_Score20', CFG20)


def merge(cov, s, label):
    cov['evaluations'] = cov.get('evaluations', 0) + s['evaluations']
    cov['distinct_nontrivial'] = cov.get('distinct_nontrivial', 0) + s['distinct_nontrivial']
    cov.setdefault('compared', {})[label] = dict(s['compared'], **{k: v for k, v in s.get('info', {}).items() if isinstance(v, (int, str))})
    cov.setdefault('samples', []).extend(s['samples'][:3])


def score_check(ctx):
    pid = ctx.pid
    thorough = ctx.tier == 'thorough'
    ctx.build_harness()
    cov, viol = {}, []
    K = 2000 if thorough else 60
    stripe = 1

    def run(mode, out, label, **kw):
        s = ctx.harness(mode, prop=pid, **dict({'in': out}, **kw))
        viol.extend(s['violations'])
        merge(cov, s, label)
        return s

    if pid in ('C04', 'C10', 'C11', 'C12'):
        r = tlc40(ctx)
        if pid in ('C04', 'C11', 'C12'):
            run('sweep40', r['out'], 'v4 sweep of all 15,116,544 effective classes', n=stripe)
        if pid in ('C04', 'C10', 'C11'):
            run('lift40', r['out'], 'v4 realisations (Modified / undefined / supplemental metrics, pairs, neighbour sequences)', n=K)
        if pid == 'C12':
            run('lift40', r['out'], 'v4 severity steps on realisations, after scoring a neighbour', n=K)
        if thorough and pid in ('C04', 'C12'):
            # the monolithic definition on all classes = the composed tables; monotone along every severity step
            # 16 single-worker TLC processes, 3 outer tuples (104,976 classes) each: a seeded 1/9 of all classes
            from concurrent.futures import ThreadPoolExecutor
            with ThreadPoolExecutor(max_workers=16) as ex:
                list(ex.map(lambda j: ctx.tlc('MC_Score40', CFG40C % (ctx.seed * 16 + j), name='MC_Score40_classes_%d' % j, workers=1, timeout=7000, heap='3g'), range(16)))
    if pid in ('C03', 'C10', 'C11', 'C12'):
        r = tlc3x(ctx)
        if pid in ('C03', 'C11', 'C12'):
            run('sweep3x', r['out'], 'v3.0/v3.1 sweep of all base, temporal and environmental classes', n=stripe)
        if pid in ('C03', 'C10', 'C11'):
            run('lift3x', r['out'], 'v3 realisations (Modified metrics, undefined metrics)', n=K)
        if pid == 'C12':
            run('lift3x', r['out'], 'v3 severity steps of every written metric (Modified metrics included) on realisations', n=K)
    if pid in ('C05', 'C11', 'C12'):
        r = tlc20(ctx)
        run('sweep20', r['out'], 'v2.0 sweep of all 139,968,000 assignments', n=stripe)
        if pid == 'C05':
            run('lift20', r['out'], 'v2.0 vectors scored right after a neighbouring vector', n=K)
    if pid == 'C11':
        # every object reached by the API histories of MC_Object (also the ones the model does not predict)
        from . import objfam
        ro, so = objfam.obj_edges(ctx, 'C11')
        viol.extend(so['violations'])
        cov.setdefault('compared', {})['scores of objects reached by Set/ParseVector histories'] = so['compared']
    # cold start: in fresh processes, all CPUs make their first scoring call at the same moment
    cold = {'C03': tlc3x, 'C04': tlc40, 'C05': tlc20}
    if pid in cold:
        rr = [r0 for r0 in ctx.tlc_runs if r0['module'] in ('MC_Score3x', 'MC_Score40_views', 'MC_Score20')]
        outp = rr[0]['out']
        ncold = 0
        for k in range(80 if thorough else 24):
            s0 = ctx.harness('coldstart', prop=pid, **{'in': outp, 'seed': ctx.seed * 100 + k})
            viol.extend(s0['violations'])
            ncold += s0['evaluations']
        cov.setdefault('compared', {})['first-use calls made concurrently in fresh processes'] = ncold
    cov['traces_validated_against_impl'] = cov['evaluations']
    cov['exhaustive'] = pid in ('C03', 'C04', 'C05', 'C11', 'C12')
    cov['rule'] = ('every effective class of the version(s) is enumerated on the real code and compared with the table composition of the '
                   'stage/part tables TLC evaluated from the specification on their full domains; realisation families: every (base, modified) '
                   'pair of every overridable metric in K seeded random contexts, no-impact realisations, undefined vs default, supplemental '
                   'metrics, random full objects; distinct_nontrivial = classes / objects compared (all distinct by construction)')
    return core.finish(ctx, 'model_checking', cov, viol, ASSUME)


CHECKS = {p: score_check for p in ('C03', 'C04', 'C05', 'C10', 'C11', 'C12')}
