"""M3: record traces from the real code (harness mode "record") and validate them with TLC (spec/Trace.tla)."""
import json, os, subprocess, time, re
from concurrent.futures import ThreadPoolExecutor
from . import core
from .objfam import spec_tables

CFG = 'SPECIFICATION TraceSpec\nINVARIANT Report\nPOSTCONDITION TraceAccepted\nCHECK_DEADLOCK FALSE\n'


def split_file(path, parts, maxlines=6000):
    """at least `parts` files (one per CPU), none longer than maxlines events: TLC's cost per event grows with the
    depth of the trace (the state carries every live object), so long traces are cut"""
    lines = open(path).read().splitlines()
    if not lines:
        return []
    n = max(parts, (len(lines) + maxlines - 1) // maxlines)
    n = max(1, min(n, len(lines)))
    size = (len(lines) + n - 1) // n
    out = []
    for i in range(n):
        chunk = lines[i * size:(i + 1) * size]
        if not chunk:
            continue
        p = '%s.%d' % (path, i)
        open(p, 'w').write('\n'.join(chunk) + '\n')
        out.append(p)
    return out


CFG_POOL = 'SPECIFICATION TPSpec\nINVARIANT TPReport\nPOSTCONDITION TPAccepted\nCHECK_DEADLOCK FALSE\n'


def split_runs(path, parts, marker='"ev":"reset"'):
    """split a trace into <= parts files at run boundaries (lines containing marker)"""
    lines = open(path).read().splitlines()
    starts = [i for i, l in enumerate(lines) if marker in l]
    if not starts:
        return []
    per = max(1, (len(starts) + parts - 1) // parts)
    out = []
    for j in range(0, len(starts), per):
        a = starts[j]
        b = starts[j + per] if j + per < len(starts) else len(lines)
        p = '%s.%d' % (path, len(out))
        open(p, 'w').write('\n'.join(lines[a:b]) + '\n')
        out.append(p)
    return out


def validate_one(ctx, trace, idx, module='Trace', cfg=None):
    d = ctx.specdir()
    cfgp = os.path.join(d, module + '.cfg')
    if not os.path.exists(cfgp):
        open(cfgp, 'w').write(cfg or CFG)
    outp = trace + '.tlc.out'
    md = trace + '.md'
    env = dict(os.environ)
    jtmp = os.path.join(ctx.work, 'jtmp')
    os.makedirs(jtmp, exist_ok=True)
    env['JAVA_TOOL_OPTIONS'] = (env.get('JAVA_TOOL_OPTIONS', '') + ' -Xss512m -Xmx3g -Djava.io.tmpdir=' + jtmp).strip()
    env['VERIF_TRACE'] = trace
    cmd = ['timeout', '3000', 'tlc', '-workers', '1', '-metadir', md, '-config', cfgp, '-nowarning', os.path.join(d, module + '.tla')]
    t = time.time()
    with open(outp, 'w') as f:
        p = subprocess.run(cmd, cwd=d, env=env, stdout=f, stderr=subprocess.STDOUT)
    subprocess.run(['rm', '-rf', md])
    txt = open(outp, errors='replace').read()
    m = re.search(r'(\d+) states generated, (\d+) distinct states found', txt)
    rep = None
    for line in txt.splitlines():
        if line.startswith('"@X'):
            rep = json.loads(json.loads(line)[2:])
    if rep is None or p.returncode != 0 or 'Model checking completed. No error has been found.' not in txt:
        keep = os.path.join(core.EVID, 'tlc-error-%s-trace%d.txt' % (ctx.pid, idx))
        os.makedirs(core.EVID, exist_ok=True)
        open(keep, 'w').write(txt[:6000] + '\n[...]\n' + txt[-14000:])
        raise core.Inconclusive('trace validation did not complete (rc=%d); TLC output kept in %s\n%s' % (p.returncode, keep, txt[-1200:]))
    return dict(trace=trace, events=rep['events'], bad=rep['bad'], generated=int(m.group(1)) if m else 0,
                distinct=int(m.group(2)) if m else 0, wall_s=round(time.time() - t, 1))


def record_and_validate(ctx, prop, n=0, tier=None, parts=None, exe=None):
    """returns (violations, stats)"""
    tabs = spec_tables(ctx)
    trace = os.path.join(ctx.work, 'trace-%s-%d.ndjson' % (prop, len(os.listdir(ctx.work))))
    kw = {'in': trace, 'aux': json.dumps(tabs), 'prop': prop, 'n': n}
    s = ctx.harness('record', exe=exe, tier=tier, env={'GORACE': 'exitcode=0 halt_on_error=0'}, **kw)
    if s.get('violations'):
        # the recorder itself stopped with a finding (a library call that never returned): the trace is incomplete
        return list(s['violations']), dict(events=0, files=0, samples=[], stderr=s.get('_stderr', ''))
    files = split_file(trace, parts or core.NCPU)
    with ThreadPoolExecutor(max_workers=core.NCPU) as ex:
        res = list(ex.map(lambda a: validate_one(ctx, a[1], a[0]), enumerate(files)))
    viol, events, samples = [], 0, []
    for r in res:
        events += r['events']
        ctx.tlc_runs.append(dict(module='Trace', out=r['trace'], generated=r['generated'], distinct=r['distinct'], wall_s=r['wall_s']))
        lines = open(r['trace']).read().splitlines()
        if not samples and lines:
            samples = [json.loads(lines[0]), json.loads(lines[len(lines) // 2])]
        for b in r['bad']:
            ev = json.loads(lines[b['line'] - 1])
            viol.append(dict(property=prop, kind='recorded call is not a behaviour of the specification: ' + b['why'],
                             version=ev.get('ver'), input=describe(ev), expected='see spec/Trace.tla (' + b['why'] + ')',
                             observed={k: ev[k] for k in ('ok', 'err', 'val', 'r', 'tenths', 'raw', 'after') if k in ev},
                             replay=dict(mode='trace1', event=ev)))
    return viol, dict(events=events, files=len(files), samples=[describe(x) for x in samples], stderr=s.get('_stderr', ''))


def describe(ev):
    def txt(b):
        return bytes(b).decode('latin-1')
    d = dict(op=ev['op'], ver=ev['ver'])
    if ev['op'] == 'parse':
        d['vector'] = txt(ev['b'])
    if ev['op'] in ('set', 'get'):
        d['abv'] = txt(ev['a'])
        d['value'] = txt(ev['v'])
    if ev['op'] in ('set', 'get', 'vector', 'score', 'nomen'):
        d['receiver'] = ev['before']
    if ev['op'] == 'score':
        d['method'] = ev['m']
    if ev['op'] == 'rating':
        d['score'] = ev['raw']
    if ev['op'] == 'vector':
        d['out'] = txt(ev['out'])
    return d


# which recorded-call rejections belong to which property (the reason strings of spec/Trace.tla!Why)
WHY_PROP = {
    'accept/reject differs from the grammar': 'C01',
    'the call panicked': 'C09',
    'receiver holds a value that is not a value of its metric': 'C09',
    'parsed object differs from the vector text': 'C06',
    'Set accepts/refuses differently': 'C09',
    'Get accepts/refuses differently': 'C09',
    'Set error value differs': 'C18',
    'Get error value differs': 'C18',
    'object after Set differs': 'C07',
    'Get value differs': 'C07',
    'Get changed the object': 'C07',
    'Vector() is not the canonical string': 'C08',
    'Vector() changed the object': 'C14',
    'scoring changed the object': 'C14',
    'object changed between two of its own calls': 'C14',
    'rating differs from the scale': 'C15',
    'nomenclature differs': 'C16',
}


def api_traces(ctx, prop, n):
    """general API recorder (byte-level mutants of real vectors, random Set histories, all versions), validated by
    Trace.tla; only the rejections that concern `prop` are returned as violations, the rest is counted."""
    viol, st = record_and_validate(ctx, 'API', n=n)
    mine, other = [], 0
    for v in viol:
        why = v['kind'].split(': ', 1)[1]
        p = WHY_PROP.get(why)
        if why == 'the call panicked':
            p = 'C01' if v['input'].get('op') == 'parse' else 'C09'
        if why == 'score differs from the specification':
            p = {'2.0': 'C05', '3.0': 'C03', '3.1': 'C03', '4.0': 'C04'}[v['version']]
        if p == prop:
            v['property'] = prop
            mine.append(v)
        else:
            other += 1
    st['rejections_belonging_to_other_properties'] = other
    return mine, st
