------------------------------- MODULE BigDec -------------------------------
(***************************************************************************)
(* Exact signed decimal arithmetic.  TLC integers are 32-bit; the CVSS     *)
(* v3 equations need up to 172 decimals ((0.9731*MISS - 0.02)^13).         *)
(* A value is [neg, mag, scale]: (-1)^neg * mag * 10^(-scale), mag a       *)
(* little-endian sequence of base-1000 limbs without high zero limbs       *)
(* (<<>> = 0).  Every operation rescales by itself, so no scale is ever    *)
(* tracked by hand.                                                        *)
(***************************************************************************)
EXTENDS Integers, Sequences

BASE == 1000

TailE(s) == IF s = <<>> THEN <<>> ELSE Tail(s)
HeadZ(s) == IF s = <<>> THEN 0 ELSE s[1]

(* drop high zero limbs *)
RECURSIVE Norm(_)
Norm(a) == IF a = <<>> THEN <<>>
           ELSE IF a[Len(a)] = 0 THEN Norm(SubSeq(a, 1, Len(a) - 1)) ELSE a

RECURSIVE AddC(_, _, _)
AddC(a, b, c) ==
  IF a = <<>> /\ b = <<>> THEN (IF c = 0 THEN <<>> ELSE <<c>>)
  ELSE LET x == HeadZ(a) + HeadZ(b) + c
       IN  <<x % BASE>> \o AddC(TailE(a), TailE(b), x \div BASE)
AddMag(a, b) == AddC(a, b, 0)

(* a - b for a >= b *)
RECURSIVE SubB(_, _, _)
SubB(a, b, br) ==
  IF a = <<>> THEN <<>>
  ELSE LET x == a[1] - HeadZ(b) - br
       IN  IF x < 0 THEN <<x + BASE>> \o SubB(Tail(a), TailE(b), 1)
           ELSE <<x>> \o SubB(Tail(a), TailE(b), 0)
SubMag(a, b) == Norm(SubB(a, b, 0))

(* compare normalised magnitudes: -1, 0, 1 *)
RECURSIVE CmpHigh(_, _, _)
CmpHigh(a, b, i) == IF i = 0 THEN 0
                    ELSE IF a[i] < b[i] THEN -1 ELSE IF a[i] > b[i] THEN 1 ELSE CmpHigh(a, b, i - 1)
CmpMag(a, b) == IF Len(a) < Len(b) THEN -1 ELSE IF Len(a) > Len(b) THEN 1 ELSE CmpHigh(a, b, Len(a))

(* multiply by a small natural c (c * 999 + carry must fit 31 bits: c <= 2,000,000) *)
RECURSIVE MulS(_, _, _)
MulS(a, c, cy) ==
  IF a = <<>> THEN (IF cy = 0 THEN <<>> ELSE IF cy < BASE THEN <<cy>> ELSE <<cy % BASE>> \o MulS(<<>>, c, cy \div BASE))
  ELSE LET x == a[1] * c + cy IN <<x % BASE>> \o MulS(Tail(a), c, x \div BASE)
MulSmall(a, c) == IF c = 0 THEN <<>> ELSE MulS(a, c, 0)

RECURSIVE MulMag(_, _)
MulMag(a, b) == IF a = <<>> \/ b = <<>> THEN <<>>
                ELSE AddMag(MulSmall(b, a[1]),
                            LET r == MulMag(Tail(a), b) IN IF r = <<>> THEN <<>> ELSE <<0>> \o r)

RECURSIVE Zeros(_)
Zeros(n) == IF n = 0 THEN <<>> ELSE <<0>> \o Zeros(n - 1)
(* mag * 10^k *)
MulPow10(a, k) ==
  IF a = <<>> THEN <<>>
  ELSE LET s == CASE k % 3 = 0 -> a [] k % 3 = 1 -> MulSmall(a, 10) [] k % 3 = 2 -> MulSmall(a, 100)
       IN  Zeros(k \div 3) \o s

(* ---- natural number -> magnitude --------------------------------------------------- *)
RECURSIVE NatMag(_)
NatMag(n) == IF n = 0 THEN <<>> ELSE <<n % BASE>> \o NatMag(n \div BASE)

(* ---- signed decimals ------------------------------------------------------------------ *)
Dec(n, scale) == [neg |-> n < 0, mag |-> NatMag(IF n < 0 THEN -n ELSE n), scale |-> scale]
Zero == Dec(0, 0)
IsZero(x) == x.mag = <<>>
NegD(x) == IF IsZero(x) THEN x ELSE [x EXCEPT !.neg = ~x.neg]

MaxN(a, b) == IF a > b THEN a ELSE b
Rescale(x, s) == [x EXCEPT !.mag = MulPow10(x.mag, s - x.scale), !.scale = s]   \* s >= x.scale

AddD(x, y) ==
  LET s == MaxN(x.scale, y.scale)
      a == Rescale(x, s)
      b == Rescale(y, s)
  IN  IF a.neg = b.neg THEN [neg |-> a.neg, mag |-> AddMag(a.mag, b.mag), scale |-> s]
      ELSE LET c == CmpMag(a.mag, b.mag)
           IN  IF c = 0 THEN [neg |-> FALSE, mag |-> <<>>, scale |-> s]
               ELSE IF c > 0 THEN [neg |-> a.neg, mag |-> SubMag(a.mag, b.mag), scale |-> s]
               ELSE [neg |-> b.neg, mag |-> SubMag(b.mag, a.mag), scale |-> s]
SubD(x, y) == AddD(x, NegD(y))
MulD(x, y) == LET m == MulMag(x.mag, y.mag)
              IN  [neg |-> (m # <<>>) /\ (x.neg # y.neg), mag |-> m, scale |-> x.scale + y.scale]

(* -1, 0, 1 *)
CmpD(x, y) ==
  LET d == SubD(x, y) IN IF IsZero(d) THEN 0 ELSE IF d.neg THEN -1 ELSE 1
MinD(x, y) == IF CmpD(x, y) <= 0 THEN x ELSE y

RECURSIVE PowD(_, _)
PowD(x, n) == IF n = 1 THEN x ELSE MulD(x, PowD(x, n - 1))

(* ---- rounding ------------------------------------------------------------------------------ *)
(* floor(mag / 10^t) as a plain integer (must be small) and whether the division is exact *)
RECURSIVE AllZero(_)
AllZero(s) == s = <<>> \/ (s[1] = 0 /\ AllZero(Tail(s)))
RECURSIVE MagInt(_)
MagInt(a) == IF a = <<>> THEN 0 ELSE a[1] + BASE * MagInt(Tail(a))
Pow10(k) == CASE k = 0 -> 1 [] k = 1 -> 10 [] k = 2 -> 100
DivPow10(a, t) ==
  LET drop == t \div 3
      low == SubSeq(a, 1, IF drop > Len(a) THEN Len(a) ELSE drop)
      high == IF drop >= Len(a) THEN <<>> ELSE SubSeq(a, drop + 1, Len(a))
      v == MagInt(high)                    \* small by assumption (asserted by the callers' ranges)
      p == Pow10(t % 3)
  IN  [q |-> v \div p, exact |-> AllZero(low) /\ v % p = 0]

(* smallest k with k/10 >= x, for x >= 0: the specification's Roundup *)
CeilTenth(x) ==
  IF IsZero(x) THEN 0
  ELSE IF x.scale = 0 THEN 10 * MagInt(x.mag)
  ELSE LET d == DivPow10(x.mag, x.scale - 1) IN IF d.exact THEN d.q ELSE d.q + 1

(* the set of admissible roundings of x to one decimal, in tenths: the nearest tenth, or   *)
(* both neighbours when x lies exactly half-way (v2 round_to_1_decimal is not defined there) *)
RoundTenthSet(x) ==
  IF IsZero(x) THEN {0}
  ELSE LET y == IF x.scale = 0 THEN Rescale(x, 1) ELSE x
           d == DivPow10(MulSmall(y.mag, 2), y.scale - 1)      \* floor(20|x|), exactness
           pos == IF d.q % 2 = 0 THEN {d.q \div 2}
                  ELSE IF d.exact THEN {(d.q - 1) \div 2, (d.q + 1) \div 2}
                  ELSE {(d.q + 1) \div 2}
       IN  IF x.neg THEN {0 - k : k \in pos} ELSE pos
=============================================================================
