------------------------------- MODULE Family -------------------------------
(***************************************************************************)
(* Deterministic, seeded families of objects, element lists and junk       *)
(* tokens that the bounded models enumerate (DESIGN section 5, "Family     *)
(* F_V").  Everything is derived from the Metrics tables and the integer   *)
(* constant Seed.                                                          *)
(***************************************************************************)
EXTENDS Object, SequencesExt

CONSTANT Seed      \* VERIF_SEED
CONSTANT K         \* number of seeded random objects per version

Min2(a, b) == IF a < b THEN a ELSE b

(* ---- a small explicit PRNG (products stay below 2^31) --------------------- *)
PM == 46337
Mix(a, b) == ((a % PM) * 31337 + (b % PM) * 7919 + 12345) % PM
Rnd3(a, b, c) == Mix(Mix(Mix(Seed + 1, a), b), c)

(* ---- objects --------------------------------------------------------------- *)
(* every metric at its k-th listed value (the last one if it has fewer) *)
KthObj(ver, k) ==
  [m \in MetricSet(ver) |-> LET s == ValueSeq(ver)[m] IN s[Min2(k, Len(s))]]

(* mandatory metrics at their k-th value, everything optional undefined *)
BaseOnlyObj(ver, k) ==
  [m \in MetricSet(ver) |-> IF m \in Mandatory(ver)
                            THEN LET s == ValueSeq(ver)[m] IN s[Min2(k, Len(s))]
                            ELSE Undef(ver)]

RndObj(ver, j) ==
  [m \in MetricSet(ver) |-> LET s == ValueSeq(ver)[m]
                            IN  s[1 + (Rnd3(j, Pos(ver, m), Len(s)) % Len(s))]]

(* random object in which each optional metric is undefined with prob. 1/2 *)
SparseObj(ver, j) ==
  [m \in MetricSet(ver) |->
     IF m \in Optional(ver) /\ Rnd3(j + 1000, Pos(ver, m), 2) % 2 = 0
     THEN Undef(ver) ELSE RndObj(ver, j)[m]]

(* every metric at a value of maximal (minimal) spelled length: the longest and shortest    *)
(* vectors the version can write (first = TRUE takes the first such value in the listed     *)
(* order, else the last one)                                                               *)
ExtremeObj(ver, long, first) ==
  [m \in MetricSet(ver) |->
     LET s == ValueSeq(ver)[m]
         better(a, b) == IF long THEN Len(SB[a]) > Len(SB[b]) ELSE Len(SB[a]) < Len(SB[b])
         best == {i \in 1..Len(s) : \A j \in 1..Len(s) : ~better(s[j], s[i])}
         pick == IF first THEN CHOOSE i \in best : \A j \in best : i <= j
                 ELSE CHOOSE i \in best : \A j \in best : i >= j
     IN  s[pick]]

BaseObjects(ver) ==
  {KthObj(ver, k) : k \in 1..6} \cup {BaseOnlyObj(ver, k) : k \in 1..4}
  \cup {ExtremeObj(ver, l, f) : l \in BOOLEAN, f \in BOOLEAN}
  \cup {RndObj(ver, j) : j \in 1..K} \cup {SparseObj(ver, j) : j \in 1..K}

(* star: every single (metric, value) deviation *)
Star(ver, o) == UNION {{[o EXCEPT ![m] = v] : v \in Values(ver, m)} : m \in MetricSet(ver)}

(* ---- byte helpers -------------------------------------------------------------- *)
LowerB(bs) == [i \in DOMAIN bs |-> IF bs[i] \in 65..90 THEN bs[i] + 32 ELSE bs[i]]
UpperB(bs) == [i \in DOMAIN bs |-> IF bs[i] \in 97..122 THEN bs[i] - 32 ELSE bs[i]]
El(m, v) == SB[m] \o <<COLON>> \o SB[v]
ElB(a, v) == a \o <<COLON>> \o v

(* ---- element lists ---------------------------------------------------------------- *)
(* every metric written explicitly, in specification order (non-canonical   *)
(* as soon as an optional metric is undefined)                               *)
FullElems(ver, o) == [k \in 1..Len(Order(ver)) |-> El(Order(ver)[k], o[Order(ver)[k]])]
CanonElems(ver, o) == ElemSeq(ver, o)

(* the metric an element of a spine was written for *)
MetricAt(ver, e) == MetricOf(ver, Cut(e).a)

(* ---- token alphabets ---------------------------------------------------------------- *)
LegalElems(ver) == UNION {{El(m, v) : v \in Values(ver, m)} : m \in MetricSet(ver)}
AllLegal == UNION {LegalElems(ver) : ver \in VersionSet}

(* misspellings of one legal value f *)
Variants(f) ==
  { LowerB(f), UpperB(f), f \o <<78>>, <<32>> \o f, f \o <<32>>, f \o <<COLON>> \o f,
    f \o <<0>>, f \o <<SLASH>>, <<9>> \o f, f \o <<10>>,
    \* wrapping / separating punctuation a lenient reader might strip: ) ( " , ;
    f \o <<41>>, <<40>> \o f, f \o <<34>>, f \o <<44>>, f \o <<59>> }
  \cup (IF Len(f) > 1
        THEN { SubSeq(f, 1, Len(f) - 1),                     \* proper prefix
               SubSeq(f, 1, Len(f) - 1) \o <<122>>,          \* same length, same first letter
               <<122>> \o SubSeq(f, 2, Len(f)),              \* same length, same tail
               SubSeq(f, 2, Len(f)) }                        \* proper suffix
        ELSE {})

JunkValues(ver, m) ==
  UNION {Variants(SB[v]) : v \in Values(ver, m)}
  \cup { <<>>, <<81>>, <<200>>, <<COLON>>, SB[IF ver = "2.0" THEN "X" ELSE "ND"], SB[Undef(ver)] }

(* values that are NOT legal for m (the junk list may contain, e.g., an      *)
(* upper-cased value that is itself legal) *)
IllegalValues(ver, m) == {v \in JunkValues(ver, m) : ValueOf(ver, m, v) = NoMetric}

JunkAbvs(ver, m) ==
  LET a == SB[m]
  IN  { LowerB(a), a \o <<32>>, <<32>> \o a, a \o <<88>>, SubSeq(a, 1, Len(a) - 1),
        <<77>> \o a, a \o <<0>>, <<>>, <<90, 90>>,
        <<40>> \o a, <<34>> \o a, a \o <<41>>, <<9>> \o a, <<10>> \o a }
IllegalAbvs(ver, m) == {a \in JunkAbvs(ver, m) : MetricOf(ver, a) = NoMetric}

(* junk elements built around metric m: illegal values, illegal               *)
(* abbreviations, missing colon, empty element                                *)
LocalJunk(ver, m) ==
  LET f == SB[ValueSeq(ver)[m][1]]
  IN  {ElB(SB[m], v) : v \in IllegalValues(ver, m)}
      \cup {ElB(a, f) : a \in IllegalAbvs(ver, m)}
      \cup {SB[m], SB[m] \o f, <<>>, <<COLON>>, <<COLON>> \o f}
=============================================================================
