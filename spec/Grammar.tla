------------------------------ MODULE Grammar ------------------------------
(***************************************************************************)
(* Declarative vector grammar of each version, over BYTES: what C01 calls  *)
(* "a well-formed vector".  No cursor, no order walk: this is the          *)
(* reference the operational parser models (Parser20/3x/40) are checked    *)
(* against, and the oracle the real parsers are compared with.             *)
(***************************************************************************)
EXTENDS Metrics, Lex, TLC

SpecStrings ==
  UNION {MetricSet(ver) : ver \in VersionSet}
  \cup UNION {UNION {Values(ver, m) : m \in MetricSet(ver)} : ver \in VersionSet}
  \cup {Header(ver) : ver \in VersionSet}

(* byte spelling of every specification string, evaluated once: "@@" with the   *)
(* empty function turns TLC's lazily evaluated closure into an explicit table   *)
SB == [s \in SpecStrings |-> StrBytes(s)] @@ <<>>

NoMetric == "-"

(* The metric m of version ver such that element e is exactly "m:value"    *)
(* with value one of m's values; NoMetric if there is none.                 *)
AbvTable == [ver \in VersionSet |-> [a \in {SB[m] : m \in MetricSet(ver)} |-> CHOOSE m \in MetricSet(ver) : SB[m] = a]]
ValTable == [ver \in VersionSet |-> [m \in MetricSet(ver) |->
               [b \in {SB[x] : x \in Values(ver, m)} |-> CHOOSE x \in Values(ver, m) : SB[x] = b]]]
ElemMetric(ver, e) ==
  LET kv == Cut(e)
  IN  IF kv.c /\ kv.a \in DOMAIN AbvTable[ver]
      THEN LET m == AbvTable[ver][kv.a]
           IN  IF kv.v \in DOMAIN ValTable[ver][m] THEN m ELSE NoMetric
      ELSE NoMetric

(* the value string written in a well-formed element of metric m *)
ElemValue(ver, m, e) == ValTable[ver][m][Cut(e).v]

IsElem(ver, e, m) == ElemMetric(ver, e) = m

(* ---- v2.0 ----------------------------------------------------------------- *)
(* Base, followed by nothing, the whole temporal group, the whole            *)
(* environmental group, or both in that order.                               *)
Shapes20 == { Base20, Base20 \o Temp20, Base20 \o Env20, Base20 \o Temp20 \o Env20 }

WFElems20(p) == \E sh \in Shapes20 :
                   /\ Len(p) = Len(sh)
                   /\ \A k \in 1..Len(p) : IsElem("2.0", p[k], sh[k])
WF20(b) == WFElems20(Split(b, SLASH))

(* ---- v3.0 / v3.1 ------------------------------------------------------------ *)
WFElems3x(ver, p) ==
  LET ms == Mat([k \in 1..Len(p) |-> ElemMetric(ver, p[k])])
  IN  /\ \A k \in 1..Len(p) : ms[k] # NoMetric
      /\ \A j, k \in 1..Len(p) : j # k => ms[j] # ms[k]
      /\ Mandatory(ver) \subseteq Rng(ms)
WF3x(ver, b) == /\ HasPrefix(b, SB[Header(ver)])
                /\ WFElems3x(ver, Split(DropPrefix(b, Len(SB[Header(ver)])), SLASH))

(* ---- v4.0 ------------------------------------------------------------------- *)
WFElems40(p) ==
  LET ms == Mat([k \in 1..Len(p) |-> ElemMetric("4.0", p[k])])
  IN  /\ Len(p) >= Len(Base40)
      /\ \A k \in 1..Len(p) : ms[k] # NoMetric
      /\ \A k \in 1..Len(Base40) : ms[k] = Base40[k]
      /\ \A k \in 1..(Len(p) - 1) : Pos("4.0", ms[k]) < Pos("4.0", ms[k + 1])
WF40(b) ==
  /\ HasPrefix(b, SB[Header("4.0")])
  /\ LET rest == DropPrefix(b, Len(SB[Header("4.0")]))
     IN  /\ rest # <<>>
         /\ rest[1] = SLASH
         /\ WFElems40(Tail(Split(rest, SLASH)))   \* first part is the empty one before "/"

WF(ver, b) == CASE ver = "2.0" -> WF20(b)
                [] ver = "3.0" -> WF3x("3.0", b)
                [] ver = "3.1" -> WF3x("3.1", b)
                [] ver = "4.0" -> WF40(b)

(* element list of a string that is well formed for ver *)
Elems(ver, b) == CASE ver = "2.0" -> Split(b, SLASH)
                   [] ver \in {"3.0", "3.1"} -> Split(DropPrefix(b, Len(SB[Header(ver)])), SLASH)
                   [] ver = "4.0" -> Tail(Split(DropPrefix(b, Len(SB[Header(ver)])), SLASH))

(* ---- meaning (C06): the assignment a well-formed vector denotes --------------- *)
Meaning(ver, b) ==
  LET p == Elems(ver, b)
      ms == Mat([k \in 1..Len(p) |-> ElemMetric(ver, p[k])])
  IN  [m \in MetricSet(ver) |->
         LET K == {k \in 1..Len(p) : ms[k] = m}
         IN  IF K = {} THEN Undef(ver) ELSE ElemValue(ver, m, p[CHOOSE k \in K : TRUE])]

(* ---- C13: at most one version accepts a given string --------------------------- *)
Acceptors(b) == {ver \in VersionSet : WF(ver, b)}
=============================================================================
