-------------------------------- MODULE Lex --------------------------------
(***************************************************************************)
(* Lexical layer.  A vector string is a sequence of bytes (0..255) - not a *)
(* TLA+ string - so that arbitrary bytes (NUL, >= 0x80, blanks) are exact  *)
(* and TLC does not intern one string per input.                           *)
(***************************************************************************)
EXTENDS Naturals, Sequences, FiniteSets

(* TLC keeps [k \in S |-> e] as a closure and re-evaluates e at every         *)
(* application; concatenating with the empty sequence turns it into an        *)
(* explicit tuple, evaluated once.  Semantically the identity on sequences.  *)
Mat(s) == s \o <<>>

SLASH == 47
COLON == 58

(* ---- strings of the specification -> bytes ------------------------------ *)
Upper == "ABCDEFGHIJKLMNOPQRSTUVWXYZ"
Lower == "abcdefghijklmnopqrstuvwxyz"
Digit == "0123456789"
IdxIn(c, str) == CHOOSE i \in 1..Len(str) : SubSeq(str, i, i) = c
InStr(c, str) == \E i \in 1..Len(str) : SubSeq(str, i, i) = c
CharCode(c) == CASE InStr(c, Upper) -> 64 + IdxIn(c, Upper)
                 [] InStr(c, Lower) -> 96 + IdxIn(c, Lower)
                 [] InStr(c, Digit) -> 47 + IdxIn(c, Digit)
                 [] c = ":" -> 58
                 [] c = "/" -> 47
                 [] c = "." -> 46
                 [] c = " " -> 32
                 [] c = "_" -> 95
                 [] c = "-" -> 45
StrBytes(s) == Mat([i \in 1..Len(s) |-> CharCode(SubSeq(s, i, i))])

(* ---- splitting ------------------------------------------------------------ *)
SepPos(b, sep) == SelectSeq([i \in 1..Len(b) |-> i], LAMBDA i : b[i] = sep)

(* all parts between separators; Split(<<>>) = << <<>> >>, like strings.Split *)
Split(b, sep) ==
  LET P == <<0>> \o SepPos(b, sep) \o <<Len(b) + 1>>
  IN  Mat([k \in 1..(Len(P) - 1) |-> SubSeq(b, P[k] + 1, P[k + 1] - 1)])

(* cut an element at its FIRST colon *)
Cut(e) ==
  LET P == SepPos(e, COLON)
  IN  IF P = <<>> THEN [a |-> e, v |-> <<>>, c |-> FALSE]
      ELSE [a |-> SubSeq(e, 1, P[1] - 1), v |-> SubSeq(e, P[1] + 1, Len(e)), c |-> TRUE]

HasPrefix(b, p) == Len(b) >= Len(p) /\ SubSeq(b, 1, Len(p)) = p
DropPrefix(b, n) == SubSeq(b, n + 1, Len(b))

(* join parts with a separator byte *)
RECURSIVE Join(_, _)
Join(parts, sep) == IF parts = <<>> THEN <<>>
                    ELSE IF Len(parts) = 1 THEN parts[1]
                    ELSE parts[1] \o <<sep>> \o Join(Tail(parts), sep)

(* every part preceded by the separator (v4 style) *)
RECURSIVE JoinLead(_, _)
JoinLead(parts, sep) == IF parts = <<>> THEN <<>>
                        ELSE <<sep>> \o parts[1] \o JoinLead(Tail(parts), sep)
=============================================================================
