------------------------------ MODULE MC_Alloc ------------------------------
(***************************************************************************)
(* Model side of C17 (allocation budget).  The specification cannot say    *)
(* anything about the Go allocator; what it states is                      *)
(*  - the BUDGET of each call of the public API (the README's "0 to 1      *)
(*    allocs/op"): successful ParseVector <= 1, Vector() = 1, Get / Set on *)
(*    a known metric (legal or illegal value), every scoring method,       *)
(*    Rating, Nomenclature = 0;                                            *)
(*  - the MECHANISM that makes Vector() a single allocation: the buffer is *)
(*    pre-sized with LenVec(o), which must equal the length of the string  *)
(*    written (TLC checks it on every case: an undercount would force a    *)
(*    second allocation exactly on the vectors containing that metric);    *)
(*  - the family of objects on which the budget is measured: each optional *)
(*    metric alone x each value (incl. the long U:Clear/Green/Amber),      *)
(*    adjacent pairs, all, base objects - and the failing inputs that must *)
(*    not disturb the steady state of a later successful parse.            *)
(* TLC prints one "@L" line per case; the harness measures the real        *)
(* allocation counts and compares them with the budget.                    *)
(***************************************************************************)
EXTENDS Family, TLC, Json
VARIABLE cs
Budget == [parse_ok |-> 1, vector |-> 1, get |-> 0, set |-> 0, score |-> 0, rating |-> 0, nomenclature |-> 0]

OptS(ver) == SelectSeq(Order(ver), LAMBDA m : m \in Optional(ver))
Objs(ver) ==
  LET b == BaseOnlyObj(ver, 1)
      opt == OptS(ver)
      second(m) == ValueSeq(ver)[m][IF ver = "2.0" THEN 1 ELSE 2]
  IN  BaseObjects(ver)
      \cup UNION {{[b EXCEPT ![m] = v] : v \in Values(ver, m)} : m \in Optional(ver)}
      \cup {[m \in MetricSet(ver) |-> IF m \in {opt[i], opt[i + 1]} THEN second(m) ELSE b[m]] : i \in 1..(Len(opt) - 1)}
      \cup {[m \in MetricSet(ver) |-> IF m \in Optional(ver) THEN second(m) ELSE b[m]]}

(* inputs that fail, one of each kind the version knows: they must leave no trace in the allocation  *)
(* behaviour of the next successful parse (a leaked pooled buffer would)                              *)
FailInputs(ver) ==
  LET p == CanonElems(ver, KthObj(ver, IF ver = "2.0" THEN 1 ELSE 2))
      body(q) == IF ver = "4.0" THEN JoinLead(q, SLASH) ELSE Join(q, SLASH)
      h == SB[Header(ver)]
  IN  LET cand == { h \o body(SubSeq(p, 1, Len(p) - 1)),                     \* last element cut
        h \o body(SubSeq(p, 1, Len(BaseSeq(ver)) + 1 - (IF ver = "2.0" THEN 0 ELSE 2))),  \* too short / missing
        h \o body([p EXCEPT ![2] = ElB(Cut(p[2]).a, <<81>>)]),    \* illegal value
        h \o body(<<p[2], p[1]>> \o SubSeq(p, 3, Len(p))),        \* order / duplicate-free swap
        h \o body(p \o <<p[1]>>),                                 \* repeated metric at the end
        StrBytes("CVSS:9.9/") \o body(p),                         \* wrong header
        <<>> }
      IN  {b \in cand : ~WF(ver, b)}     \* (in v3 a cut optional element or a swap is still a valid vector)

Cases == UNION {{[ver |-> ver, o |-> x] : x \in Objs(ver)} : ver \in VersionSet}
CaseSeq == SetToSeq(Cases)
Init == cs = 0
Next == /\ cs = 0 /\ cs' \in 1..Len(CaseSeq)
IsCase == cs > 0
C == CaseSeq[cs]
(* the pre-sizing mechanism *)
LenVecExact == IsCase => LenVec(C.ver, C.o) = Len(VectorOf(C.ver, C.o))
FailsReallyFail == IsCase => Cardinality(FailInputs(C.ver)) >= 3
EmitL == IsCase =>
  PrintT("@L" \o ToJson([ver |-> C.ver, order |-> Order(C.ver), o |-> [k \in 1..Len(Order(C.ver)) |-> C.o[Order(C.ver)[k]]],
                         vec |-> VectorOf(C.ver, C.o), lenvec |-> LenVec(C.ver, C.o), budget |-> Budget,
                         fails |-> FailInputs(C.ver),
                         illegal |-> [k \in 1..Len(Order(C.ver)) |-> <<81, 81>>]]))
=============================================================================
