----------------------------- MODULE MC_BigDec -----------------------------
(* Self-test of BigDec against 32-bit integer arithmetic on small operands  *)
(* (exhaustive over the ranges below) and printed big values that the       *)
(* driver compares with Python's exact Fraction arithmetic.                 *)
EXTENDS BigDec, TLC, Json
VARIABLE st
R == -12..12
S == 0..2
P10(k) == CASE k = 0 -> 1 [] k = 1 -> 10 [] k = 2 -> 100 [] k = 3 -> 1000 [] k = 4 -> 10000
(* integer value of x at scale 4 *)
AsInt4(x) == LET y == Rescale(x, 4) IN (IF y.neg THEN -1 ELSE 1) * MagInt(y.mag)
Init == st \in R \X S \X R \X S
Next == UNCHANGED st
Ok == LET a == st[1] sa == st[2] b == st[3] sb == st[4]
          x == Dec(a * 7, sa) y == Dec(b * 13, sb)
          ia == a * 7 * P10(4 - sa) ib == b * 13 * P10(4 - sb)
      IN  /\ AsInt4(AddD(x, y)) = ia + ib
          /\ AsInt4(SubD(x, y)) = ia - ib
          /\ AsInt4(MulD(x, y)) * 1 = (a * 7 * b * 13) * P10(4 - sa - sb)
          /\ CmpD(x, y) = (IF ia < ib THEN -1 ELSE IF ia > ib THEN 1 ELSE 0)
          /\ (a >= 0 => CeilTenth(x) = (ia + 999) \div 1000)
          /\ RoundTenthSet(x) = (LET n == IF ia < 0 THEN -ia ELSE ia
                                      q == n \div 1000 r == n % 1000
                                      pos == IF r < 500 THEN {q} ELSE IF r > 500 THEN {q + 1} ELSE {q, q + 1}
                                  IN  IF ia < 0 THEN {0 - k : k \in pos} ELSE pos)
ASSUME PrintT("@B" \o ToJson([name |-> "pow13", v |-> PowD(SubD(MulD(Dec(9731, 4), Dec(915, 3)), Dec(2, 2)), 13)]))
ASSUME PrintT("@B" \o ToJson([name |-> "pow15", v |-> PowD(SubD(Dec(915, 3), Dec(2, 2)), 15)]))
ASSUME PrintT("@B" \o ToJson([name |-> "mix", v |-> SubD(MulD(Dec(752, 2), SubD(Dec(915, 3), Dec(29, 3))), MulD(Dec(325, 2), PowD(SubD(Dec(915, 3), Dec(2, 2)), 15)))]))
=============================================================================
