----------------------------- MODULE MC_Nomen -----------------------------
(* Model of C16: v4.0 objects that differ in which optional metrics are      *)
(* defined.  TLC checks the two formulations of the nomenclature equal and   *)
(* that base and supplemental metrics never matter, and prints every case    *)
(* ("@N": the object and its nomenclature) for the harness.                   *)
EXTENDS Score40, Family, TLC, Json
VARIABLE cs          \* the case: an object
OptSeq40 == SelectSeq(Order40, LAMBDA m : m \in Optional("4.0"))
Ctx(k) == BaseOnlyObj("4.0", k)
With(o, S, pick(_)) == [m \in MetricSet("4.0") |-> IF m \in S THEN pick(m) ELSE o[m]]
SecondV(m) == ValueSeq("4.0")[m][2]
LastV(m) == ValueSeq("4.0")[m][Len(ValueSeq("4.0")[m])]
RndSet(j) == {OptSeq40[i] : i \in {i \in 1..Len(OptSeq40) : Rnd3(500 + j, i, 3) % 5 = 0}}
Cases ==
  UNION {
    {Ctx(k)}
    \cup UNION {{[Ctx(k) EXCEPT ![m] = v] : v \in Values("4.0", m)} : m \in Optional("4.0")}
    \cup {With(Ctx(k), {OptSeq40[i], OptSeq40[i + 1]}, SecondV) : i \in 1..(Len(OptSeq40) - 1)}
    \cup {With(Ctx(k), Optional("4.0"), SecondV), With(Ctx(k), Optional("4.0"), LastV)}
    \cup {With(Ctx(k), RndSet(j), LastV) : j \in 1..K}
    \* every pair of (environmental / threat metric, value) - in the first context only
    \cup (IF k = 1
          THEN UNION {UNION {UNION {{[Ctx(k) EXCEPT ![m1] = v1, ![m2] = v2]
                                       : v2 \in Values("4.0", m2) \ {"X"}} : v1 \in Values("4.0", m1) \ {"X"}}
                               : m2 \in (EnvSet40 \cup {"E"}) \ {m1}} : m1 \in EnvSet40 \cup {"E"}}
          ELSE {})
    \cup {With(RndObj("4.0", j), SuppSet40, LastV) : j \in 1..K} \cup {RndObj("4.0", j) : j \in 1..K}
    \cup {SparseObj("4.0", j) : j \in 1..K}
  : k \in 1..3}
Init == cs \in Cases
Next == UNCHANGED cs
TwoFormulations == Nomenclature(cs) = Nomenclature2(cs)
(* changing base or supplemental metrics never changes the nomenclature *)
OnlyGroupsMatter ==
  \A m \in Mandatory("4.0") \cup SuppSet40 : \A v \in Values("4.0", m) :
     Nomenclature([cs EXCEPT ![m] = v]) = Nomenclature(cs)
EmitN == PrintT("@N" \o ToJson([o |-> [k \in 1..Len(Order40) |-> cs[Order40[k]]], order |-> Order40,
                                 vec |-> VectorOf("4.0", cs), r |-> Nomenclature(cs)]))
=============================================================================
