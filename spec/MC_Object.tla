----------------------------- MODULE MC_Object -----------------------------
(***************************************************************************)
(* Bounded model of object histories behind C02, C07, C09 (and the Get /   *)
(* Set clauses of C18).                                                    *)
(*                                                                         *)
(* NOTE: state variables must not share a name with any bound identifier of  *)
(* the constant tables (TLC decides by NAME whether a definition is constant   *)
(* and may be evaluated once), hence cver, cobj, cn, cph.                      *)
(* State: a version and the abstract object a real object must hold.       *)
(* Behaviours: start from the zero value (as observed), load a base object *)
(* either by ParseVector of one of its spellings or by a chain of Set      *)
(* calls, then up to Depth further Set calls; at depth 0 every             *)
(* (abbreviation, value) pair of the junk alphabets is offered to Set and  *)
(* every abbreviation to Get.  TLC prints every state ("@S") and every     *)
(* transition ("@E": from, call, expected result, to); the harness walks   *)
(* the edges on real objects, one real object per model state.             *)
(***************************************************************************)
EXTENDS Family, ZeroObs, TLC, Json

CONSTANT Vers, Depth, Wide    \* Wide: second-step Sets use every value (else first/last only)

VARIABLES cver, cobj, cn, cph     \* cph: "zero" | "obj"
vars == <<cver, cobj, cn, cph>>

ObjSeq(v, x) == [k \in 1..Len(Order(v)) |-> x[Order(v)[k]]]

(* ---- alphabets ------------------------------------------------------------------- *)
AllAbvs == UNION {MetricSet(v) : v \in VersionSet}
AllVals == UNION {UNION {Values(v, m) : m \in MetricSet(v)} : v \in VersionSet}

AbvJunk(a) ==
  { a, LowerB(a), UpperB(a), a \o <<32>>, <<32>> \o a, a \o <<0>>, a \o <<COLON>>, a \o <<88>>,
    <<77>> \o a, <<200>> \o a, <<0>> \o a, <<0, 0>> \o a, <<9>> \o a, a \o <<10>>, <<255>> \o a }
  \cup (IF Len(a) > 1 THEN {SubSeq(a, 1, Len(a) - 1), SubSeq(a, 2, Len(a)),
                            SubSeq(a, 1, Len(a) - 1) \o <<122>>} ELSE {})
AbvAlphabet == UNION {AbvJunk(SB[a]) : a \in AllAbvs} \cup {<<>>, <<90, 90>>, <<COLON>>, <<SLASH>>}

ValAlphabet == UNION {Variants(SB[x]) \cup {SB[x]} : x \in AllVals}
               \cup {<<>>, <<81>>, <<200>>, <<COLON>>, <<SLASH>>}

(* pairs offered to Set at depth 0 *)
WidePairs(v) ==
  \* every abbreviation of the alphabet with a legal-looking value, every metric of the version with
  \* every value of the alphabet
  {<<a, SB["N"]>> : a \in AbvAlphabet} \cup {<<a, SB["X"]>> : a \in AbvAlphabet}
  \cup {<<a, <<>>>> : a \in AbvAlphabet}
  \cup UNION {{<<SB[m], x>> : x \in ValAlphabet} : m \in MetricSet(v)}

LegalPairs(v) == UNION {{<<SB[m], SB[x]>> : x \in Values(v, m)} : m \in MetricSet(v)}
EdgePairs(v) == UNION {{<<SB[m], SB[ValueSeq(v)[m][1]]>>,
                        <<SB[m], SB[ValueSeq(v)[m][Len(ValueSeq(v)[m])]]>>} : m \in MetricSet(v)}

(* ---- base objects and the ways to reach them ------------------------------------------ *)
Bases(v) == BaseObjects(v)

Spellings(v, x) ==
  {VectorOf(v, x)}
  \cup (IF v = "2.0" THEN {Join(FullElems(v, x), SLASH)}
        ELSE IF v = "4.0" THEN {SB[Header(v)] \o JoinLead(FullElems(v, x), SLASH)}
        ELSE {SB[Header(v)] \o Join(FullElems(v, x), SLASH),
              SB[Header(v)] \o Join(Reverse(FullElems(v, x)), SLASH)})

SetChain(v, x, rev) ==
  LET ord == IF rev THEN Reverse(Order(v)) ELSE Order(v)
  IN  [k \in 1..Len(ord) |-> <<SB[ord[k]], SB[x[ord[k]]]>>]

(* ---- emission --------------------------------------------------------------------------- *)
EmitEdge(rec) == PrintT("@E" \o ToJson(rec))

Init == /\ cver \in Vers
        /\ cobj = ZeroObs(cver)
        /\ cn = 0
        /\ cph = "zero"

LoadByParse ==
  /\ cph = "zero"
  /\ \E x \in Bases(cver) : \E b \in Spellings(cver, x) :
       /\ cobj' = x /\ cph' = "obj" /\ cn' = 0 /\ UNCHANGED cver
       /\ EmitEdge([ver |-> cver, f |-> ObjSeq(cver, cobj), op |-> "parse", b |-> b,
                    ok |-> WF(cver, b), t |-> ObjSeq(cver, Meaning(cver, b))])
       /\ Assert(WF(cver, b) /\ Meaning(cver, b) = x, "a spelling of x must mean x")

LoadBySets ==
  /\ cph = "zero"
  /\ \E x \in Bases(cver) : \E rev \in BOOLEAN :
       /\ cobj' = x /\ cph' = "obj" /\ cn' = 0 /\ UNCHANGED cver
       /\ EmitEdge([ver |-> cver, f |-> ObjSeq(cver, cobj), op |-> "setseq", seq |-> SetChain(cver, x, rev),
                    t |-> ObjSeq(cver, x)])

StayZero == /\ cph = "zero" /\ cph' = "obj" /\ UNCHANGED <<cver, cobj, cn>>

(* Object!SetB / GetB are ObjectCore!CSet / CGet with the real lookups substituted: the algebra proved   *)
(* for ObjectCore by TLAPS (proofs/ObjectCoreProofs.tla: frame, commutation, last write wins) is the     *)
(* algebra of the operators every check uses; asserted on every Set / Get transition explored            *)
Core(ver) == INSTANCE ObjectCore WITH Metrics <- MetricSet(ver), None <- NoMetric,
                                      MetricOfF <- LAMBDA a : MetricOf(ver, a),
                                      ValueOfF <- LAMBDA m, v : ValueOf(ver, m, v)
CoreIsObjectSet(a, v) ==
  LET r == SetB(cver, cobj, a, v)
      c == Core(cver)!CSet(cobj, a, v)
  IN  r.ok = c.ok /\ r.obj = c.obj /\ Core(cver)!CFrame(cobj, a, v)
CoreIsObjectGet(a) ==
  LET r == GetB(cver, cobj, a)
      c == Core(cver)!CGet(cobj, a)
  IN  r.ok = c.ok /\ r.val = c.val

SetCall(a, v) ==
  LET r == SetB(cver, cobj, a, v)
  IN  /\ cobj' = r.obj
      /\ cn' = IF r.ok THEN cn + 1 ELSE cn
      /\ UNCHANGED <<cver, cph>>
      /\ EmitEdge([ver |-> cver, f |-> ObjSeq(cver, cobj), op |-> "set", a |-> a, v |-> v,
                   ok |-> r.ok, err |-> r.err, t |-> ObjSeq(cver, r.obj)])
      /\ Assert(FrameOK(cver, cobj, a, v), "frame condition of Set")
      /\ Assert(CoreIsObjectSet(a, v), "Object!SetB is not ObjectCore!CSet")

SetJunk == /\ cph = "obj" /\ cn = 0
           /\ \E p \in WidePairs(cver) : SetCall(p[1], p[2])

SetLegal == /\ cph = "obj" /\ cn < Depth
            /\ \E p \in (IF cn = 0 \/ Wide THEN LegalPairs(cver) ELSE EdgePairs(cver)) : SetCall(p[1], p[2])

GetCall ==
  /\ cph = "obj" /\ cn = 0
  /\ \E a \in AbvAlphabet :
       LET r == GetB(cver, cobj, a)
       IN  /\ EmitEdge([ver |-> cver, f |-> ObjSeq(cver, cobj), op |-> "get", a |-> a,
                        ok |-> r.ok, err |-> r.err, val |-> r.val])
           /\ Assert(CoreIsObjectGet(a), "Object!GetB is not ObjectCore!CGet")
           /\ UNCHANGED vars

Next == LoadByParse \/ LoadBySets \/ StayZero \/ SetJunk \/ SetLegal \/ GetCall

(* ---- invariants of the abstract layer --------------------------------------------------------- *)
TypeOK == WellFormed(cver, cobj)
(* C02 on the abstract layer: the canonical string is accepted by its own version only and means cobj *)
RoundTrip == LET b == VectorOf(cver, cobj)
             IN  /\ WF(cver, b) /\ Meaning(cver, b) = cobj
                 /\ Acceptors(b) = {cver}
                 /\ LenVec(cver, cobj) = Len(b)
EmitState == cph = "obj" =>
               PrintT("@S" \o ToJson([ver |-> cver, o |-> ObjSeq(cver, cobj), vec |-> VectorOf(cver, cobj),
                                      order |-> Order(cver)]))
=============================================================================
