CONSTANTS
  Seed = 1
  K = 2
  MaxDev = 1
  Vers = {"2.0", "3.0", "3.1", "4.0"}
  Fam = "all"
  BigStep = TRUE
INIT Init
NEXT Next
INVARIANTS
  RefinesGrammarJ
  RefinesMeaningJ
  NoUnset
  ErrIffReject
  CursorOK
  CatalogueAgrees
  CataloguedIsRejected
  AtMostOneAcceptor
  CanonIdempotent
  Emit
CHECK_DEADLOCK FALSE
