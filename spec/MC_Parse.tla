------------------------------ MODULE MC_Parse ------------------------------
(***************************************************************************)
(* Bounded model behind C01, C06, C08, C13 and C18.                        *)
(*                                                                         *)
(* A behaviour is: choose a spine (an element list of one version), apply  *)
(* at most MaxDev deviations to it (one action each), concretise it into   *)
(* bytes with a header / tail variant, and run the operational parser of   *)
(* that version step by step (module Parsers).  At the terminal state TLC  *)
(* checks that the automaton refines the declarative grammar and prints    *)
(* one "@C" line: the input, the verdict of the grammar for all four       *)
(* versions, the object and canonical string for the accepting version,    *)
(* the error the automaton reports and the error the C18 catalogue         *)
(* expects.  The harness gives the bytes to the four real parsers.         *)
(***************************************************************************)
EXTENDS Family, Parsers, Json

CONSTANT MaxDev        \* deviations per input (1 quick, 2 thorough)
CONSTANT Vers          \* versions whose spines are explored
CONSTANT Fam           \* "all" | "accepted" | "defects"
CONSTANT BigStep       \* TRUE: the parser runs to completion in one step

VARIABLES els,   \* element list under construction (build phase)
          ndev,  \* deviations applied so far
          out    \* verdicts of the declarative layer on the finished call (else <<>>)

vars == <<pvars, els, ndev, out>>

NoExp == [kind |-> "uncat", abv |-> <<>>]

(* ---- spines ------------------------------------------------------------------ *)
(* reverse and rotations of an element list: every metric first / last (v3) *)
Rotate(s, r) == [k \in 1..Len(s) |-> s[((k + r - 1) % Len(s)) + 1]]
SwapAt(s, k) == [j \in 1..Len(s) |-> IF j = k THEN s[k + 1] ELSE IF j = k + 1 THEN s[k] ELSE s[j]]
RndPerm(s, j) ==
  LET idx == [k \in 1..Len(s) |-> k]
      key(k) == Rnd3(7000 + j, k, 5) * 64 + k
      p == SortSeq(idx, LAMBDA a, b : key(a) < key(b))
  IN  [k \in 1..Len(s) |-> s[p[k]]]

(* v4 / v3: base elements followed by a chosen set of optional ones *)
WithOptional(ver, o, S) ==
  LET w == SelectSeq(Order(ver), LAMBDA m : m \in Mandatory(ver) \/ m \in S)
  IN  [k \in 1..Len(w) |-> El(w[k], o[w[k]])]

OptSeq(ver) == SelectSeq(Order(ver), LAMBDA m : m \in Optional(ver))

(* v2: the four group shapes, written in full from o *)
Shape20(o, t, e) ==
  LET w == Base20 \o (IF t THEN Temp20 ELSE <<>>) \o (IF e THEN Env20 ELSE <<>>)
  IN  [k \in 1..Len(w) |-> El(w[k], o[w[k]])]

(* major spines: the full deviation alphabets are applied to these *)
Major(ver) ==
  IF ver = "2.0"
  THEN { Shape20(KthObj(ver, 2), TRUE, TRUE), Shape20(KthObj(ver, 1), FALSE, FALSE),
         Shape20(KthObj(ver, 3), TRUE, FALSE), Shape20(KthObj(ver, 4), FALSE, TRUE) }
  ELSE { FullElems(ver, KthObj(ver, 2)), CanonElems(ver, BaseOnlyObj(ver, 1)),
         CanonElems(ver, SparseObj(ver, 1)) }
       \cup (IF ver # "4.0" THEN {Reverse(FullElems(ver, KthObj(ver, 3)))} ELSE {})

(* minor spines: accepted (mostly non-canonical) spellings; only legal       *)
(* single-value changes and structural deviations are applied to these       *)
Minor(ver) ==
  LET objs == BaseObjects(ver)
      full == {FullElems(ver, o) : o \in objs}
      canon == {CanonElems(ver, o) : o \in objs}
      o3 == KthObj(ver, 3)
      opt == OptSeq(ver)
  IN  IF ver = "2.0"
      THEN {Shape20(o, t, e) : o \in objs, t \in BOOLEAN, e \in BOOLEAN} \cup canon
      ELSE full \cup canon
           \cup {WithOptional(ver, o3, {opt[k]}) : k \in 1..Len(opt)}               \* each alone
           \cup {WithOptional(ver, o3, {opt[k], opt[k + 1]}) : k \in 1..(Len(opt) - 1)}
           \cup {WithOptional(ver, KthObj(ver, 1), {opt[k]}) : k \in 1..Len(opt)}   \* explicit X alone
           \cup (IF ver \in {"3.0", "3.1"}
                 THEN LET f == FullElems(ver, o3)
                          c == CanonElems(ver, SparseObj(ver, 2))
                      IN  {Reverse(f), Reverse(c)}
                          \cup {Rotate(f, r) : r \in 1..(Len(f) - 1)}
                          \cup {SwapAt(f, k) : k \in 1..(Len(f) - 1)}
                          \cup {RndPerm(f, j) : j \in 1..K} \cup {RndPerm(c, j) : j \in 1..K}
                 ELSE {})

Body(ver, p) == IF ver = "4.0" THEN JoinLead(p, SLASH) ELSE Join(p, SLASH)
InsAt(s, j, e) == SubSeq(s, 1, j - 1) \o <<e>> \o SubSeq(s, j, Len(s))
RemAt(s, k) == SubSeq(s, 1, k - 1) \o SubSeq(s, k + 1, Len(s))

(* ---- header / tail variants -------------------------------------------------------- *)
HeaderVariants(ver) ==
  LET h == SB[Header(ver)]
  IN  {SB[Header(v)] : v \in VersionSet}                       \* other versions' headers, none
      \cup {<<c>> \o SB[Header(v)] : v \in VersionSet, c \in {32, 9, 10, 13}}   \* a blank, then any version's header
      \cup {SB[Header(v)] \o <<c>> : v \in VersionSet, c \in {32, 9}}
      \cup {LowerB(SB[Header(v)]) : v \in VersionSet}
      \cup {SubSeq(h, 1, k) : k \in 0..Len(h)}                  \* every prefix of the header ...
      \cup {SubSeq(h, 1, k) \o <<SLASH>> : k \in 0..Len(h)}    \* ... alone and followed by "/"
      \cup { LowerB(h), SubSeq(h, 1, Len(h) - 1), h \o h, <<32>> \o h, h \o <<32>>,
             h \o <<SLASH>>, <<SLASH>> \o h, h \o <<0>>, SubSeq(h, 2, Len(h)),
             StrBytes("CVSS:3.1"), StrBytes("CVSS:3.0"), StrBytes("CVSS:4.0/"),
             StrBytes("CVSS:3.2/"), StrBytes("CVSS:4.1"), StrBytes("CVSS:2.0/"),
             StrBytes("CVSS:3."), StrBytes("CVSS:"), StrBytes("CVSS:31/") }
TailVariants == { <<>>, <<SLASH>>, <<32>>, <<10>>, <<0>>, <<SLASH, SLASH>>, <<200>> }

(* more header spellings, applied to the major spines only: every byte of the header replaced by every  *)
(* byte of the header alphabet (another digit, a sign, a separator: "CVSS:3.3/", "CVSS:3../", ...), a    *)
(* zero / sign / blank inserted anywhere ("CVSS:04.0", "CVSS:+4.0", "CVSS:4.-0"), and a complete vector  *)
(* of ANOTHER version written before or after this one on the same line, separated by a blank            *)
HeaderAlphabet == {67, 86, 83, 58, 46, 47, 43, 45, 32} \cup (48..57)
OtherVectors(ver) ==
  {SB[Header(v)] \o Body(v, CanonElems(v, BaseOnlyObj(v, 1))) : v \in VersionSet \ {ver}}
HeaderVariants2(ver) ==
  LET h == SB[Header(ver)]
  IN  {[h EXCEPT ![i] = c] : i \in 1..Len(h), c \in HeaderAlphabet}
      \cup {InsAt(h, i, c) : i \in 1..(Len(h) + 1), c \in {48, 43, 45, 32}}
      \cup {w \o <<c>> \o h : w \in OtherVectors(ver), c \in {32, 9, 10}}
TailVariants2(ver) == {<<c>> \o w : w \in OtherVectors(ver), c \in {32, 9, 10}}


(* single-byte edits of a whole concrete string: substitute (separator, colon, a letter, *)
(* blank, NUL, a byte >= 0x80, the other case), delete, insert                           *)
Flip(c) == IF c \in 65..90 THEN c + 32 ELSE IF c \in 97..122 THEN c - 32 ELSE c
ByteEdits(b) ==
  ({[b EXCEPT ![i] = c] : i \in 1..Len(b), c \in {SLASH, COLON, 88, 32, 0, 200}}
   \cup {[b EXCEPT ![i] = Flip(b[i])] : i \in 1..Len(b)}
   \cup {RemAt(b, i) : i \in 1..Len(b)}
   \cup {InsAt(b, i, c) : i \in 1..(Len(b) + 1), c \in {SLASH, COLON, 78, 32}}
   \* wrapping punctuation and line ends before the first and after the last byte
   \cup {InsAt(b, i, c) : i \in {1, Len(b) + 1},
                           c \in {40, 41, 91, 93, 123, 125, 34, 39, 60, 62, 44, 59, 46, 45, 95, 43, 61, 35, 92, 9, 13, 10}}) \ {b}


(* ---- C18 catalogue: the error a single catalogued defect must produce ------------------ *)
(* v2 / v4: misplaced, repeated or unknown metric -> order; v3: named errors *)
OrderOrNamed(ver, kind, a) == IF ver \in {"3.0", "3.1"} THEN ErrAbv(kind, a) ELSE Err("order")

(* ---- build phase ------------------------------------------------------------------------ *)
Tag(f, k) == [f |-> f, k |-> k]

IsMajor == inp.maj

Build(p, tag, exp) ==
  /\ els' = p
  /\ ndev' = ndev + 1
  /\ inp' = [inp EXCEPT !.tag = tag, !.exp = IF ndev = 0 THEN exp ELSE NoExp]
  /\ UNCHANGED <<ps, out>>


(* a second deviation (thorough tier, MaxDev = 2) combines two LIGHT deviations (legal value,  *)
(* delete, swap, truncate) on a major spine; the heavy alphabets are applied once only          *)
Light == inp.tag.f \in {"value", "delete", "swap", "trunc"}
First == ndev = 0
CanDeviate == ps.pc = "build" /\ ndev < MaxDev /\ (First \/ (IsMajor /\ Light))

(* replace element k by a legal element of the same metric (stays accepted) *)
DevValue ==
  /\ CanDeviate /\ Fam \in {"all", "accepted"}
  /\ \E k \in 1..Len(els) :
       LET m == MetricAt(inp.ver, els[k])
       IN  /\ m # NoMetric
           /\ \E v \in Values(inp.ver, m) :
                /\ El(m, v) # els[k]
                /\ Build([els EXCEPT ![k] = El(m, v)], Tag("value", k), NoExp)

(* replace element k by an illegal value of its own metric: a single defect *)
DevBadValue ==
  /\ CanDeviate /\ First /\ IsMajor /\ Fam \in {"all", "defects"}
  /\ \E k \in 1..Len(els) :
       LET m == MetricAt(inp.ver, els[k])
       IN  /\ m # NoMetric
           /\ \E v \in IllegalValues(inp.ver, m) :
                Build([els EXCEPT ![k] = ElB(SB[m], v)], Tag("badvalue", k),
                      \* an illegal value containing "/" is more than one defect
                      IF \E i \in 1..Len(v) : v[i] = SLASH THEN NoExp ELSE Err("value"))

(* replace element k by any other token *)
DevReplace ==
  /\ CanDeviate /\ First /\ IsMajor /\ Fam \in {"all", "defects"}
  /\ \E k \in 1..Len(els) :
       LET m == MetricAt(inp.ver, els[k])
           \* family "defects": the legal elements of the version itself (every metric at every position)
           toks == IF Fam = "defects" THEN LegalElems(inp.ver)
                   ELSE AllLegal \cup (IF m # NoMetric THEN LocalJunk(inp.ver, m) ELSE {})
       IN  \E t \in toks :
             /\ t # els[k]
             /\ LET tm == ElemMetric(inp.ver, t)
                    p2 == [els EXCEPT ![k] = t]
                    \* a legal element of ANOTHER metric where metric m belongs: a misplaced metric (v2 / v4: order),
                    \* unless the result happens to be a well-formed vector (v4 optional metrics)
                    misplaced == tm # NoMetric /\ m # NoMetric /\ tm # m /\ inp.ver \in {"2.0", "4.0"}
                                 /\ ~WF(inp.ver, SB[Header(inp.ver)] \o Body(inp.ver, p2))
                IN  Build(p2, Tag("replace", k), IF misplaced THEN Err("order") ELSE NoExp)

(* insert a token at position j: unknown / repeated / misplaced metric *)
DevInsert ==
  /\ CanDeviate /\ First /\ IsMajor /\ Fam \in {"all", "defects"}
  /\ \E j \in 1..(Len(els) + 1) :
       LET near == IF j <= Len(els) THEN els[j] ELSE els[Len(els)]
           m == MetricAt(inp.ver, near)
           toks == (IF Fam = "all" THEN AllLegal ELSE LegalElems(inp.ver))
                   \cup (IF m # NoMetric THEN LocalJunk(inp.ver, m) ELSE {})
       IN  \E t \in toks :
             LET kv == Cut(t)
                 tm == MetricOf(inp.ver, kv.a)
                 present == \E k \in 1..Len(els) : MetricAt(inp.ver, els[k]) = tm
                 unknown == tm = NoMetric /\ kv.c /\ kv.a # <<>>
                            /\ \A i \in 1..Len(t) : t[i] # SLASH
                 legalDup == tm # NoMetric /\ present /\ ElemMetric(inp.ver, t) = tm
                 exp == IF unknown THEN OrderOrNamed(inp.ver, "metric", kv.a)
                        ELSE IF legalDup THEN OrderOrNamed(inp.ver, "definedN", kv.a)
                        ELSE NoExp
             IN  Build(InsAt(els, j, t), Tag("insert", j), exp)

DevDelete ==
  /\ CanDeviate /\ Fam \in {"all", "defects"}
  /\ \E k \in 1..Len(els) :
       LET m == MetricAt(inp.ver, els[k])
           exp == IF inp.ver \in {"3.0", "3.1"} /\ m \in Mandatory(inp.ver)
                  THEN ErrAbv("missing", SB[m]) ELSE NoExp
       IN  Build(RemAt(els, k), Tag("delete", k), exp)

(* duplicate element k at position j *)
DevDup ==
  /\ CanDeviate /\ First /\ Fam \in {"all", "defects"}
  /\ \E k \in 1..Len(els) : \E j \in 1..(Len(els) + 1) :
       /\ (IsMajor \/ j \in {k, k + 1, 1, Len(els) + 1})
       /\ MetricAt(inp.ver, els[k]) # NoMetric
       /\ Build(InsAt(els, j, els[k]), Tag("dup", k),
                OrderOrNamed(inp.ver, "definedN", Cut(els[k]).a))

DevSwap ==
  /\ CanDeviate /\ Fam \in {"all", "defects"}
  /\ \E k \in 1..(Len(els) - 1) :
       Build(SwapAt(els, k), Tag("swap", k),
             IF inp.ver \in {"3.0", "3.1"} THEN NoExp ELSE Err("order"))

(* cut the vector after k elements *)
GroupEnds20 == {6, 9, 11, 14}
DevTrunc ==
  /\ CanDeviate /\ Fam \in {"all", "defects"}
  /\ \E k \in 0..(Len(els) - 1) :
       LET exp == CASE inp.ver = "2.0" ->
                         \* inside a started group: not at a group end of THIS spine
                         IF k > 0 /\ ~( k = 6 \/ (k = 9 /\ MetricAt("2.0", els[7]) = "E")
                                         \/ (k = 11 /\ MetricAt("2.0", els[7]) = "CDP") )
                         THEN Err("short") ELSE NoExp
                    [] inp.ver = "4.0" -> IF k < Len(Base40) THEN Err("short") ELSE NoExp
                    [] OTHER -> NoExp
       IN  Build(SubSeq(els, 1, k), Tag("trunc", k), exp)

(* ---- concretise and start the parser -------------------------------------------------------- *)
Concretise ==
  /\ ps.pc = "build"
  /\ \E hv \in ({SB[Header(inp.ver)]} \cup
                (IF ndev = 0 /\ Fam \in {"all", "defects"}
                 THEN HeaderVariants(inp.ver) \cup (IF IsMajor THEN HeaderVariants2(inp.ver) ELSE {}) ELSE {})) :
     \E tv \in ({<<>>} \cup (IF ndev = 0 /\ Fam = "all"
                               THEN TailVariants \cup (IF IsMajor THEN TailVariants2(inp.ver) ELSE {}) ELSE {})) :
       LET exact == hv = SB[Header(inp.ver)]
           b == hv \o Body(inp.ver, els) \o tv
           \* a wrong header is catalogued when the string really lacks the header
           exp == IF ~exact /\ tv = <<>> /\ inp.ver # "2.0" /\ ~HasPrefix(b, SB[Header(inp.ver)])
                  THEN Err("header")
                  ELSE IF exact /\ tv = <<>> THEN inp.exp ELSE NoExp
       IN  /\ inp' = [inp EXCEPT !.b = b, !.exp = exp,
                                 !.tag = IF exact /\ tv = <<>> THEN inp.tag
                                         ELSE Tag(IF exact THEN "tail" ELSE "header", 0)]
           /\ ps' = [ps EXCEPT !.pc = "start"]
           /\ els' = <<>>
           /\ UNCHANGED <<ndev, out>>

(* one byte of the exact concrete string edited (major spines, no other deviation) *)
ConcretiseEdited ==
  /\ ps.pc = "build" /\ ndev = 0 /\ IsMajor /\ Fam = "all"
  /\ \E b \in ByteEdits(SB[Header(inp.ver)] \o Body(inp.ver, els)) :
       /\ inp' = [inp EXCEPT !.b = b, !.exp = NoExp, !.tag = Tag("byte", 0)]
       /\ ps' = [ps EXCEPT !.pc = "start"]
       /\ els' = <<>>
       /\ UNCHANGED <<ndev, out>>

Init ==
  \E ver \in Vers :
    \E maj \in BOOLEAN :
      \E p \in (IF maj THEN Major(ver) ELSE Minor(ver) \ Major(ver)) :
        /\ inp = [ver |-> ver, b |-> <<>>, tag |-> Tag(IF maj THEN "major" ELSE "minor", 0),
                  exp |-> NoExp, maj |-> maj]
        /\ ps = PInit(ver, "build")
        /\ els = p
        /\ ndev = 0
        /\ out = <<>>

(* ---- the declarative layer judges the finished call (evaluated once) ------------------------ *)
(* v2: something follows a complete, well-formed vector that ends with the     *)
(* environmental group (finding 3 of DESIGN section 7)                          *)
AfterEnv20 ==
  /\ inp.ver = "2.0"
  /\ LET p == Split(inp.b, SLASH)
     IN  \E n \in {11, 14} : Len(p) > n /\ WFElems20(SubSeq(p, 1, n))
Judge ==
  /\ Done /\ out = <<>>
  /\ LET wf == [v \in VersionSet |-> WF(v, inp.b)]
         acc == wf[inp.ver]
         mean == IF acc THEN Meaning(inp.ver, inp.b) ELSE [x \in {} |-> x]
         can == IF acc THEN VectorOf(inp.ver, mean) ELSE <<>>
     IN  out' = [ wf |-> wf, meaning |-> mean, canon |-> can,
                  \* the canonical string is itself well formed, canonical, and means the same
                  canonOK |-> acc => /\ WF(inp.ver, can)
                                     /\ Meaning(inp.ver, can) = mean
                                     /\ VectorOf(inp.ver, Meaning(inp.ver, can)) = can
                                     /\ LenVec(inp.ver, mean) = Len(can),
                  known |-> AfterEnv20 /\ inp.exp.kind = "order" ]
  /\ UNCHANGED <<inp, ps, els, ndev>>

Judged == out # <<>>

Next ==
  \/ DevValue \/ DevBadValue \/ DevReplace \/ DevInsert \/ DevDelete \/ DevDup \/ DevSwap \/ DevTrunc
  \/ Concretise \/ ConcretiseEdited
  \/ (~BigStep /\ ParseStep /\ UNCHANGED <<els, ndev, out>>)
  \/ (BigStep /\ BigRun /\ UNCHANGED <<els, ndev, out>>)
  \/ Judge

Spec == Init /\ [][Next]_vars /\ WF_vars(Next)

(* every call terminates: the state graph of one call is finite and acyclic *)
Terminates == <>(ps.pc = "done")

(* ---- spec-internal checks ------------------------------------------------------------------ *)
(* the automaton refines the declarative grammar (C01) and Meaning (C06) *)
RefinesGrammarJ == Judged => (ps.res.ok <=> out.wf[inp.ver])
RefinesMeaningJ == (Judged /\ ps.res.ok) => ps.obj = out.meaning
(* the catalogued error is what the operational model reports; the one named   *)
(* deviation is DESIGN section 7 finding 3: v2, anything after a complete        *)
(* environmental group is reported as a value error by the code                  *)
CatalogueAgrees ==
  (Judged /\ inp.exp # NoExp) =>
     \/ ps.res.err = inp.exp
     \/ (out.known /\ ps.res.err.kind = "value")
(* a catalogued defect is a defect *)
CataloguedIsRejected == (Judged /\ inp.exp # NoExp) => ~out.wf[inp.ver]
AtMostOneAcceptor == Judged => Cardinality({v \in VersionSet : out.wf[v]}) <= 1
CanonIdempotent == Judged => out.canonOK

(* ---- emission ----------------------------------------------------------------------------------- *)
Emit ==
  Judged =>
    PrintT("@C" \o ToJson(
      [ ver   |-> inp.ver,
        tag   |-> inp.tag,
        b     |-> inp.b,
        wf    |-> out.wf,
        ok    |-> ps.res.ok,
        err   |-> ps.res.err,
        exp   |-> inp.exp,
        known |-> out.known,
        obj   |-> out.meaning,
        canon |-> out.canon ]))
=============================================================================
