------------------------------ MODULE MC_Pool ------------------------------
(* Instance of Pool for C14: two (three) goroutines, inputs from a small set of    *)
(* v2.0 vectors (accepted ones of every shape, truncated, trailing-separator,      *)
(* bad value, over-long, empty), the pool initially holding one buffer with the    *)
(* stale contents of a full 14-element vector.  With Hist = TRUE every complete    *)
(* interleaving is a distinct terminal state and is printed ("@P") for the gate    *)
(* replay on the real code; with Hist = FALSE the schedule is not recorded and TLC *)
(* checks the invariants - and, under SPECIFICATION Spec, that every call          *)
(* terminates (PROPERTY Terminates) - on all interleavings.                        *)
EXTENDS Pool, Family, TLC, Json

Shape20(o, t, e) ==
  LET w == Base20 \o (IF t THEN Temp20 ELSE <<>>) \o (IF e THEN Env20 ELSE <<>>)
  IN  [k \in 1..Len(w) |-> El(w[k], o[w[k]])]

O2 == KthObj("2.0", 2)
O3 == KthObj("2.0", 3)
J(p) == Join(p, SLASH)
DropLast(p) == SubSeq(p, 1, Len(p) - 1)
InputSeq ==
  << J(Shape20(O2, FALSE, FALSE)),                       \* 1 base
     J(Shape20(O3, TRUE, FALSE)),                        \* 2 base + temporal
     J(Shape20(O2, FALSE, TRUE)),                        \* 3 base + environmental
     J(Shape20(O3, TRUE, TRUE)),                         \* 4 all
     J(SubSeq(Shape20(O2, TRUE, TRUE), 1, 7)),           \* 5 too short
     J([Shape20(O3, TRUE, TRUE) EXCEPT ![4] = StrBytes("C:Q")]),   \* 6 bad value
     J(Shape20(O2, TRUE, TRUE) \o <<StrBytes("AV:N")>>), \* 7 fifteen elements
     J(DropLast(Shape20(O2, FALSE, FALSE))) \o <<SLASH>>,\* 8 base cut before its last value
     J(DropLast(Shape20(O3, TRUE, FALSE))) \o <<SLASH>>, \* 9 temporal group cut, trailing "/"
     J(DropLast(Shape20(O2, TRUE, TRUE))) \o <<SLASH>>,  \* 10 environmental group cut, trailing "/"
     <<>>,                                               \* 11 empty
     J(Reverse(Shape20(O2, FALSE, FALSE))) >>            \* 12 wrong order
CONSTANT NInputs      \* how many of the inputs are used
Stale == LET p == Shape20(KthObj("2.0", 1), TRUE, TRUE) IN [i \in 1..14 |-> p[i]]

Init == \E inputs \in [G -> 1..NInputs] :
          PoolInit([g \in G |-> InputSeq[inputs[g]]], Stale)
Next == PoolNext
Spec == Init /\ [][Next]_poolvars /\ WF_poolvars(Next)

NoHist == <<call, slots, owner, pool>>

(* number of reads a call performs (for the gate positions on the real code) *)
Reads(b) == LET r == ParseResult("2.0", b) IN Len(Split14(b)) - Len(r.parts)
EmitSchedule ==
  (Hist /\ AllDone) =>
    PrintT("@P" \o ToJson([inputs |-> [g \in G |-> call[g].inb], sched |-> hist,
                           res |-> [g \in G |-> [ok |-> call[g].res.ok, err |-> call[g].res.err,
                                                 obj |-> IF call[g].res.ok
                                                         THEN [k \in 1..Len(Order20) |-> call[g].res.obj[Order20[k]]]
                                                         ELSE <<>>]],
                           nparts |-> [g \in G |-> Len(Split14(call[g].inb))]]))
=============================================================================
