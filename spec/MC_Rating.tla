----------------------------- MODULE MC_Rating -----------------------------
(* Grid model of C15: every hundredth from -1.00 to 11.00.  TLC checks that  *)
(* the rating is total, monotone, changes exactly at 0.1 / 4.0 / 7.0 / 9.0   *)
(* and is out of bounds exactly outside [0,10]; the expected rating of each  *)
(* grid point is printed for the harness ("@G").                             *)
EXTENDS Rating, TLC, Json
VARIABLE n
Init == n \in -100..1100
Next == UNCHANGED n
R(k) == RatingOf(Hundredths(k))
Total == R(n) \in {"NONE", "LOW", "MEDIUM", "HIGH", "CRITICAL", OutOfBounds}
BoundsExact == (R(n) = OutOfBounds) <=> (n < 0 \/ n > 1000)
Monotone == (n >= 0 /\ n < 1000) => Rank5[R(n)] <= Rank5[R(n + 1)]
ChangesOnlyAtThresholds == (n >= 0 /\ n < 1000 /\ R(n) # R(n + 1)) => (n + 1) \in {10, 400, 700, 900}
Scale == /\ (n = 0 => R(n) = "NONE") /\ (n \in 10..399 => R(n) = "LOW") /\ (n \in 400..699 => R(n) = "MEDIUM")
         /\ (n \in 700..899 => R(n) = "HIGH") /\ (n \in 900..1000 => R(n) = "CRITICAL") /\ (n \in 1..9 => R(n) = "NONE")
Emit == PrintT("@G" \o ToJson([n |-> n, r |-> R(n)]))
=============================================================================
