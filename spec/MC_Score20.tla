----------------------------- MODULE MC_Score20 -----------------------------
(***************************************************************************)
(* Model behind C05 (and the v2 parts of C11, C12): every rounded stage of *)
(* the v2.0 equations on its full domain, one TLC state per table row;     *)
(* rows are sets of admissible tenths.  The harness composes the stage     *)
(* tables over all 139,968,000 assignments.                                *)
(***************************************************************************)
EXTENDS Score20, FiniteSets, SequencesExt, TLC, Json

VARIABLE view
V2(m) == Values("2.0", m)
ExKeys == {<<av, ac, au>> : av \in V2("AV"), ac \in V2("AC"), au \in V2("Au")}
ImpKeys == {<<c, i, a>> : c \in V2("C"), i \in V2("I"), a \in V2("A")}
AdjKeys == {<<c, i, a, cr, ir, ar>> : c \in V2("C"), i \in V2("I"), a \in V2("A"),
                                      cr \in V2("CR"), ir \in V2("IR"), ar \in V2("AR")}
TKeys == {<<e, rl, rc>> : e \in V2("E"), rl \in V2("RL"), rc \in V2("RC")}
DKeys == {<<cdp, td>> : cdp \in V2("CDP"), td \in V2("TD")}

ExOf(k) == ExplOf2(k[1], k[2], k[3])
ImpOf(k) == ImpactOf2(k[1], k[2], k[3])
AdjOf(k) == AdjImpactOf2(k[1], k[2], k[3], k[4], k[5], k[6])
TOf(k) == W2_E[k[1]] * W2_RL[k[2]] * W2_RC[k[3]]
DOf(k) == <<W2_CDP[k[1]], W2_TD[k[2]]>>

(* values are normalised to a common scale so that equal numbers are equal records *)
N16(x) == Rescale(x, 20)
ExVals == SetToSeq({N16(ExOf(k)) : k \in ExKeys})
ImpVals == SetToSeq({N16(ImpOf(k)) : k \in ImpKeys})
AdjVals == SetToSeq({N16(AdjOf(k)) : k \in AdjKeys})
TVals == SetToSeq({TOf(k) : k \in TKeys})
DVals == SetToSeq({DOf(k) : k \in DKeys})
IdxOf(seq, x) == CHOOSE i \in 1..Len(seq) : seq[i] = x

ASSUME
  /\ PrintT("@T" \o ToJson([name |-> "exidx", keys |-> <<"AV", "AC", "Au">>, n |-> Len(ExVals),
                            rows |-> {[k |-> k, i |-> IdxOf(ExVals, N16(ExOf(k)))] : k \in ExKeys}]))
  /\ PrintT("@T" \o ToJson([name |-> "impidx", keys |-> <<"C", "I", "A">>, n |-> Len(ImpVals),
                            rows |-> {[k |-> k, i |-> IdxOf(ImpVals, N16(ImpOf(k)))] : k \in ImpKeys}]))
  /\ PrintT("@T" \o ToJson([name |-> "adjidx", keys |-> <<"C", "I", "A", "CR", "IR", "AR">>, n |-> Len(AdjVals),
                            rows |-> {[k |-> k, i |-> IdxOf(AdjVals, N16(AdjOf(k)))] : k \in AdjKeys}]))
  /\ PrintT("@T" \o ToJson([name |-> "tidx", keys |-> <<"E", "RL", "RC">>, n |-> Len(TVals),
                            rows |-> {[k |-> k, i |-> IdxOf(TVals, TOf(k))] : k \in TKeys}]))
  /\ PrintT("@T" \o ToJson([name |-> "didx", keys |-> <<"CDP", "TD">>, n |-> Len(DVals),
                            rows |-> {[k |-> k, i |-> IdxOf(DVals, DOf(k))] : k \in DKeys}]))
  /\ PrintT("@T" \o ToJson([name |-> "vals", keys |-> <<>>, n |-> 0, rows |-> Vals20]))
  /\ PrintT("@T" \o ToJson([name |-> "sev", keys |-> <<>>, n |-> 0, rows |-> SevOrder2]))

KMin == -2
Views ==
  {<<"base", i>> : i \in 1..Len(ExVals)} \cup {<<"adj", i>> : i \in 1..Len(ExVals)}
  \cup {<<"temp", k>> : k \in KMin..100} \cup {<<"env", k>> : k \in KMin..100} \cup {<<"sub">>}
ViewSeq == SetToSeq(Views)
Init == view = <<"start">>
Next == \/ /\ view = <<"start">>
           /\ view' \in {<<"grp", g>> : g \in 0..63}
        \/ /\ view[1] = "grp"
           /\ view' \in {ViewSeq[i] : i \in {i \in 1..Len(ViewSeq) : i % 64 = view[2]}}
IsRow == view[1] \in {"base", "adj", "temp", "env", "sub"}

SetSeq(S) == SetToSeq(S)
Row == CASE view[1] = "base" -> [j \in 1..Len(ImpVals) |-> SetSeq(BaseLike2(ImpVals[j], ExVals[view[2]]))]
         [] view[1] = "adj" -> [j \in 1..Len(AdjVals) |-> SetSeq(BaseLike2(AdjVals[j], ExVals[view[2]]))]
         [] view[1] = "temp" -> [t \in 1..Len(TVals) |-> SetSeq(RoundFrac(view[2] * TVals[t], 6))]
         [] view[1] = "env" -> [d \in 1..Len(DVals) |->
                                 SetSeq(RoundFrac((10 * view[2] + (100 - view[2]) * DVals[d][1]) * DVals[d][2], 3))]
         [] OTHER -> <<>>

(* every admissible value stays inside the range the later stages are tabulated for *)
InRange == IsRow => \A j \in 1..Len(Row) : \A x \in Rng(Row[j]) : x \in KMin..100
(* base and temporal scores are never negative (only the literal environmental equation is) *)
BaseNonNeg == view[1] = "base" => \A j \in 1..Len(Row) : \A x \in Rng(Row[j]) : x >= 0
SetsSmall == IsRow => \A j \in 1..Len(Row) : Len(Row[j]) \in 1..2

Emit ==
  IF ~IsRow THEN TRUE
  ELSE IF view[1] = "sub"
  THEN /\ PrintT("@B" \o ToJson([t |-> "expl", rows |-> ExVals]))
       /\ PrintT("@B" \o ToJson([t |-> "impact", rows |-> ImpVals]))
  ELSE PrintT("@R" \o ToJson([v |-> view, row |-> Row]))
=============================================================================
