----------------------------- MODULE MC_Score3x -----------------------------
(***************************************************************************)
(* Model behind C03 (and the v3 parts of C10, C11, C12).  The equations    *)
(* are products of rounded stages; TLC evaluates every stage on its FULL   *)
(* domain, one state per table row, checks the stage invariants and        *)
(* prints the rows.  The harness composes the stage tables exactly as the  *)
(* equations compose the stages and compares all 2,592 base, 259,200       *)
(* temporal and 16,588,800 environmental classes per version with the      *)
(* real code.                                                              *)
(***************************************************************************)
EXTENDS Score3x, FiniteSets, SequencesExt, TLC, Json

VARIABLE view

V3(m) == Values("3.1", m)
ExKeys == {<<av, ac, pr, ui, s>> : av \in V3("AV"), ac \in V3("AC"), pr \in V3("PR"), ui \in V3("UI"), s \in V3("S")}
IssKeys == {<<c, i, a>> : c \in V3("C"), i \in V3("I"), a \in V3("A")}
CIAR == {"X", "H", "M", "L"}
MissKeys == {<<mc, mi, ma, cr, ir, ar>> : mc \in V3("C"), mi \in V3("I"), ma \in V3("A"),
                                          cr \in CIAR, ir \in CIAR, ar \in CIAR}
TKeys == {<<e, rl, rc>> : e \in V3("E"), rl \in V3("RL"), rc \in V3("RC")}

ExOf(k) == ExplOf(k[1], k[2], k[3], k[4], k[5])
IssOf(k) == ISS6(k[1], k[2], k[3])
MissOf(k) == MISS9(k[1], k[2], k[3], k[4], k[5], k[6])
TOf(k) == W_E[k[1]] * W_RL[k[2]] * W_RC[k[3]]

ExVals == SetToSeq({ExOf(k) : k \in ExKeys})
IssVals == SetToSeq({IssOf(k) : k \in IssKeys})
MissVals == SetToSeq({MissOf(k) : k \in MissKeys})
TVals == SetToSeq({TOf(k) : k \in TKeys})

IdxOf(seq, x) == CHOOSE i \in 1..Len(seq) : seq[i] = x

(* effective-value resolution as a table (C10): (base value, modified value) -> effective *)
EffTable3 ==
  UNION {{[m |-> Overrides3x[mm], mm |-> mm, b |-> b, x |-> x, e |-> IF x # "X" THEN x ELSE b]
            : b \in V3(Overrides3x[mm]), x \in V3(mm)} : mm \in DOMAIN Overrides3x}
(* an undefined temporal / requirement metric scores as this value (same weight) *)
Defaults3 == [E |-> "H", RL |-> "U", RC |-> "C", CR |-> "M", IR |-> "M", AR |-> "M"]
ASSUME /\ W_E["X"] = W_E[Defaults3["E"]] /\ W_RL["X"] = W_RL[Defaults3["RL"]] /\ W_RC["X"] = W_RC[Defaults3["RC"]]
       /\ \A m \in {"CR", "IR", "AR"} : W_CIAR["X"] = W_CIAR[Defaults3[m]]
ASSUME \A o \in {[m \in MetricSet("3.1") |-> ValueSeq("3.1")[m][IF k <= Len(ValueSeq("3.1")[m]) THEN k ELSE 1]] : k \in 1..5} :
         \A r \in EffTable3 : (o[r.m] = r.b /\ o[r.mm] = r.x) => Eff3(o)[r.m] = r.e

ASSUME
  /\ PrintT("@T" \o ToJson([name |-> "exidx", keys |-> <<"AV", "AC", "PR", "UI", "S">>, n |-> Len(ExVals),
                            rows |-> {[k |-> k, i |-> IdxOf(ExVals, ExOf(k))] : k \in ExKeys}]))
  /\ PrintT("@T" \o ToJson([name |-> "issidx", keys |-> <<"C", "I", "A">>, n |-> Len(IssVals),
                            rows |-> {[k |-> k, i |-> IdxOf(IssVals, IssOf(k))] : k \in IssKeys}]))
  /\ PrintT("@T" \o ToJson([name |-> "missidx", keys |-> <<"C", "I", "A", "CR", "IR", "AR">>, n |-> Len(MissVals),
                            rows |-> {[k |-> k, i |-> IdxOf(MissVals, MissOf(k))] : k \in MissKeys}]))
  /\ PrintT("@T" \o ToJson([name |-> "tidx", keys |-> <<"E", "RL", "RC">>, n |-> Len(TVals),
                            rows |-> {[k |-> k, i |-> IdxOf(TVals, TOf(k))] : k \in TKeys}]))
  /\ PrintT("@T" \o ToJson([name |-> "vals", keys |-> <<>>, n |-> 0, rows |-> Vals3x]))
  /\ PrintT("@T" \o ToJson([name |-> "sev", keys |-> <<>>, n |-> 0, rows |-> SevOrder3]))
  /\ PrintT("@T" \o ToJson([name |-> "mod", keys |-> <<>>, n |-> 0, rows |-> Overrides3x]))
  /\ PrintT("@T" \o ToJson([name |-> "eff", keys |-> <<>>, n |-> 0, rows |-> EffTable3]))
  /\ PrintT("@T" \o ToJson([name |-> "defaults", keys |-> <<>>, n |-> 0, rows |-> Defaults3]))

Views ==
  {<<"base", s, i>> : s \in {"U", "C"}, i \in 1..Len(ExVals)}
  \cup {<<"env", v, ms, j>> : v \in {"3.0", "3.1"}, ms \in {"U", "C"}, j \in 1..Len(MissVals)}
  \cup {<<"temp", k>> : k \in 0..100}
  \cup {<<"sub">>}

(* TLC checks invariants of initial states in its main thread; a two-level fan-out  *)
(* (start -> 64 groups -> rows) lets all workers evaluate rows in parallel          *)
ViewSeq == SetToSeq(Views)
Init == view = <<"start">>
Next == \/ /\ view = <<"start">>
           /\ view' \in {<<"grp", g>> : g \in 0..63}
        \/ /\ view[1] = "grp"
           /\ view' \in {ViewSeq[i] : i \in {i \in 1..Len(ViewSeq) : i % 64 = view[2]}}
IsRow == view[1] \in {"base", "env", "temp", "sub"}

BaseRow(s, i) == [j \in 1..Len(IssVals) |-> BaseLike(s, ImpactOf(s, IssVals[j]), ExVals[i])]
EnvRow(v, ms, j) == LET mi == ModImpactOf(v, ms, MissVals[j])
                    IN  [i \in 1..Len(ExVals) |-> BaseLike(ms, mi, ExVals[i])]
TempRow(k) == [t \in 1..Len(TVals) |-> (k * TVals[t] + 999999) \div 1000000]

Row == CASE view[1] = "base" -> BaseRow(view[2], view[3])
         [] view[1] = "env" -> EnvRow(view[2], view[3], view[4])
         [] view[1] = "temp" -> TempRow(view[2])
         [] OTHER -> <<>>

(* ---- stage invariants ------------------------------------------------------------------------ *)
InRange == IsRow => \A x \in Rng(Row) : x \in 0..100
(* the ceiling Roundup and the Appendix-A Roundup agree on every value that occurs *)
PreRound(s, imp, ex) == LET sum == AddD(imp, ex) IN MinD(IF s = "U" THEN sum ELSE MulD(H(108), sum), Ten)
RoundupsAgree ==
  CASE ~IsRow -> TRUE
    [] view[1] = "base" ->
         \A j \in 1..Len(IssVals) :
           LET imp == ImpactOf(view[2], IssVals[j])
           IN  CmpD(imp, Zero) > 0 =>
                 LET x == PreRound(view[2], imp, ExVals[view[3]]) IN RoundupA(x) = CeilTenth(x)
    [] view[1] = "env" ->
         LET mi == ModImpactOf(view[2], view[3], MissVals[view[4]])
         IN  CmpD(mi, Zero) > 0 =>
               \A i \in 1..Len(ExVals) :
                 LET x == PreRound(view[3], mi, ExVals[i]) IN RoundupA(x) = CeilTenth(x)
    [] view[1] = "temp" ->
         \A t \in 1..Len(TVals) : RoundupA(Dec(view[2] * TVals[t], 7)) = TempRow(view[2])[t]
    [] OTHER -> TRUE
MissCap == view[1] = "env" => MissVals[view[4]] <= 915000000
(* temporal / environmental factors never raise a score *)
TempBelow == view[1] = "temp" => \A t \in 1..Len(TVals) : TempRow(view[2])[t] <= view[2]

Emit ==
  IF ~IsRow THEN TRUE
  ELSE IF view[1] = "sub"
  THEN /\ PrintT("@B" \o ToJson([t |-> "expl", rows |-> ExVals]))
       /\ PrintT("@B" \o ToJson([t |-> "impact", rows |-> [s \in {"U", "C"} |-> [j \in 1..Len(IssVals) |-> ImpactOf(s, IssVals[j])]]]))
  ELSE PrintT("@R" \o ToJson([v |-> view, row |-> Row]))
=============================================================================
