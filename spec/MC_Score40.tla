----------------------------- MODULE MC_Score40 -----------------------------
(***************************************************************************)
(* Model behind C04 (and the v4 parts of C10, C11, C12).                   *)
(*                                                                         *)
(* The score of an effective class depends on the class only through five  *)
(* independent PARTS: (eq1, distance) of (AV,PR,UI); (eq2, distance) of    *)
(* (AC,AT); (eq3, eq6, distance, all-None flag) of (VC,VI,VA,CR,IR,AR);    *)
(* (eq4, distance, all-None flag) of (SC,SI,SA); eq5 of E.  Mode "views":  *)
(* one TLC state per combination of distinct part values (the "views");    *)
(* TLC checks the range / tie / table invariants and prints the part       *)
(* tables ("@T") and the score of every view ("@V"); the harness indexes   *)
(* all 15,116,544 classes through the tables - table composition only, no  *)
(* CVSS logic on the Go side.  Mode "classes": one state per outer tuple   *)
(* (AV,AC,AT,PR,UI,E), each evaluating the monolithic ScoreEff on its      *)
(* 34,992 inner classes: checks that the composition equals the monolithic *)
(* definition on ALL classes and that the score is monotone along every    *)
(* severity step (C12).                                                    *)
(***************************************************************************)
EXTENDS Score40, Sequences, FiniteSets, SequencesExt, TLC, Json

CONSTANT Mode,     \* "views" | "classes"
         Stripe,   \* classes mode: only every Stripe-th outer tuple is evaluated ...
         Phase     \* ... namely those whose rank is Phase modulo Stripe

VARIABLE view      \* views: <<i1,i2,i36,i4,i5>>; classes: <<av,ac,at,pr,ui,ee>> value indices

(* ---- parts ------------------------------------------------------------------------ *)
R1(av, pr, ui) == [AV |-> av, PR |-> pr, UI |-> ui]
R2(ac, at) == [AC |-> ac, AT |-> at]
R4(sc, si, sa) == [SC |-> sc, SI |-> si, SA |-> sa]
Part1(e) == <<EQ1(e), SevDist(e, Max1[EQ1(e) + 1], M1)>>
Part2(e) == <<EQ2(e), SevDist(e, Max2[EQ2(e) + 1], M2)>>
Part36(e) == <<EQ3(e), EQ6(e), SevDist(e, Max36[EQ3(e) + 1][EQ6(e) + 1], M36),
               IF e.VC = "N" /\ e.VI = "N" /\ e.VA = "N" THEN 1 ELSE 0>>
Part4(e) == <<EQ4(e), SevDist(e, Max4[EQ4(e) + 1], M4),
              IF e.SC = "N" /\ e.SI = "N" /\ e.SA = "N" THEN 1 ELSE 0>>

V(m) == Rng(EffVals[m])
Dom1 == {R1(a, b, c) : a \in V("AV"), b \in V("PR"), c \in V("UI")}
Dom2 == {R2(a, b) : a \in V("AC"), b \in V("AT")}
Dom36 == {V6(a, b, c, d, f, g) : a \in V("VC"), b \in V("VI"), c \in V("VA"),
                                 d \in V("CR"), f \in V("IR"), g \in V("AR")}
Dom4 == {R4(a, b, c) : a \in V("SC"), b \in V("SI"), c \in V("SA")}

P1 == SetToSeq({Part1(e) : e \in Dom1})
P2 == SetToSeq({Part2(e) : e \in Dom2})
P36 == SetToSeq({Part36(e) : e \in Dom36})
P4 == SetToSeq({Part4(e) : e \in Dom4})

IdxOf(seq, x) == CHOOSE i \in 1..Len(seq) : seq[i] = x

(* class -> part index tables, as lists of [k (values), i (index)] *)
T1 == {[k |-> <<e.AV, e.PR, e.UI>>, i |-> IdxOf(P1, Part1(e))] : e \in Dom1}
T2 == {[k |-> <<e.AC, e.AT>>, i |-> IdxOf(P2, Part2(e))] : e \in Dom2}
T36 == {[k |-> <<e.VC, e.VI, e.VA, e.CR, e.IR, e.AR>>, i |-> IdxOf(P36, Part36(e))] : e \in Dom36}
T4 == {[k |-> <<e.SC, e.SI, e.SA>>, i |-> IdxOf(P4, Part4(e))] : e \in Dom4}
T5 == {[k |-> <<x>>, i |-> EQ5([E |-> x]) + 1] : x \in V("E")}

ViewScore(i1, i2, i36, i4, i5) ==
  LET p1 == P1[i1] p2 == P2[i2] p36 == P36[i36] p4 == P4[i4]
  IN  IF p36[4] = 1 /\ p4[3] = 1 THEN 0
      ELSE ScoreOf(<<p1[1], p2[1], p36[1], p4[1], i5 - 1, p36[2]>>, <<p1[2], p2[2], p36[3], p4[2]>>)
ViewTie(i1, i2, i36, i4, i5) ==
  LET p1 == P1[i1] p2 == P2[i2] p36 == P36[i36] p4 == P4[i4]
  IN  ~(p36[4] = 1 /\ p4[3] = 1)
      /\ TieOf(<<p1[1], p2[1], p36[1], p4[1], i5 - 1, p36[2]>>, <<p1[2], p2[2], p36[3], p4[2]>>)

(* effective-value resolution as a table (C10): for every score metric, every (base value,   *)
(* modified value) pair -> effective value; metrics without a Modified twin have mm = ""      *)
EffTable ==
  UNION { IF m \in DOMAIN ModOf
          THEN {[m |-> m, mm |-> ModOf[m], b |-> b, x |-> x, e |-> IF x # "X" THEN x ELSE b]
                  : b \in Values("4.0", m), x \in Values("4.0", ModOf[m])}
          ELSE {[m |-> m, mm |-> "", b |-> b, x |-> "", e |-> IF b # "X" THEN b ELSE IF m = "E" THEN "A" ELSE "H"]
                  : b \in Values("4.0", m)}
        : m \in Rng(ScoreMetrics) }
(* the table is what Eff40 computes (checked on the k-th-value objects below) *)

ASSUME Mode = "views" =>
  /\ PrintT("@T" \o ToJson([name |-> "T1", rows |-> T1, n |-> Len(P1)]))
  /\ PrintT("@T" \o ToJson([name |-> "T2", rows |-> T2, n |-> Len(P2)]))
  /\ PrintT("@T" \o ToJson([name |-> "T36", rows |-> T36, n |-> Len(P36)]))
  /\ PrintT("@T" \o ToJson([name |-> "T4", rows |-> T4, n |-> Len(P4)]))
  /\ PrintT("@T" \o ToJson([name |-> "T5", rows |-> T5, n |-> 3]))
  /\ PrintT("@T" \o ToJson([name |-> "vals", rows |-> EffVals, n |-> 0]))
  /\ PrintT("@T" \o ToJson([name |-> "rank", rows |-> Rank @@ [E |-> [A |-> 0, P |-> 1, U |-> 2]], n |-> 0]))
  /\ PrintT("@T" \o ToJson([name |-> "eff", rows |-> EffTable, n |-> 0]))
  /\ PrintT("@T" \o ToJson([name |-> "allvals", rows |-> Vals40, n |-> 0]))

(* ---- lookup table: structural transcription guards ------------------------------------ *)
AllMV == {q \in (0..2) \X (0..1) \X (0..2) \X (0..2) \X (0..2) \X (0..1) : ~(q[3] = 2 /\ q[6] = 0)}
ASSUME LookupOK ==
  /\ Cardinality(AllMV) = 270
  /\ \A q \in AllMV : Lk(q) \in 1..100
  /\ \A q \in (0..2) \X (0..1) \X {2} \X (0..2) \X (0..2) \X {0} : Lk(q) = 0
  /\ Lk(<<0, 0, 0, 0, 0, 0>>) = 100
  \* a less severe level of any EQ never has a higher value
  /\ \A q \in AllMV : \A k \in 1..6 :
       LET q2 == [q EXCEPT ![k] = q[k] + 1] IN q2 \in AllMV => Lk(q2) <= Lk(q)

(* every highest-severity vector of a level has the same rank sum, lies in its own level,  *)
(* and every class has a qualifying one (distance >= 0)                                     *)
RECURSIVE RankSum(_, _)
RankSum(mx, ms) == IF ms = <<>> THEN 0 ELSE Rank[Head(ms)][mx[Head(ms)]] + RankSum(mx, Tail(ms))
ASSUME MaxRankSumsEqual ==
  /\ \A l \in 1..3 : \A a, b \in Max1[l] : RankSum(a, M1) = RankSum(b, M1) /\ EQ1(a) = l - 1
  /\ \A l \in 1..2 : \A a, b \in Max2[l] : RankSum(a, M2) = RankSum(b, M2) /\ EQ2(a) = l - 1
  /\ \A l \in 1..3 : \A a, b \in Max4[l] : RankSum(a, M4) = RankSum(b, M4) /\ EQ4(a) = l - 1
  /\ \A l \in 1..3 : \A k \in 1..2 : \A a, b \in Max36[l][k] :
       RankSum(a, M36) = RankSum(b, M36) /\ EQ3(a) = l - 1 /\ EQ6(a) = k - 1
ASSUME EveryClassQualifies ==
  /\ \A e \in Dom1 : Part1(e)[2] >= 0
  /\ \A e \in Dom2 : Part2(e)[2] >= 0
  /\ \A e \in Dom36 : Part36(e)[3] >= 0
  /\ \A e \in Dom4 : Part4(e)[2] >= 0
(* the depth of a level bounds the distance inside it *)
ASSUME DepthBounds ==
  /\ \A e \in Dom1 : Part1(e)[2] < Depth1[EQ1(e) + 1]
  /\ \A e \in Dom2 : Part2(e)[2] < Depth2[EQ2(e) + 1]
  /\ \A e \in Dom36 : Part36(e)[3] < Depth36[EQ3(e) + 1][EQ6(e) + 1]
  /\ \A e \in Dom4 : Part4(e)[2] < Depth4[EQ4(e) + 1]

(* ---- states ---------------------------------------------------------------------------------- *)
OuterM == <<"AV", "AC", "AT", "PR", "UI", "E">>
(* two-level fan-out so that all workers evaluate rows (TLC checks the invariants of    *)
(* initial states in its main thread)                                                   *)
AllViews ==
  IF Mode = "views"
  THEN (1..Len(P1)) \X (1..Len(P2)) \X (1..Len(P36)) \X (1..Len(P4)) \X (1..3)
  ELSE {v \in (1..4) \X (1..2) \X (1..2) \X (1..3) \X (1..3) \X (1..3) :
          (v[1] + 4 * v[2] + 8 * v[3] + 16 * v[4] + 48 * v[5] + 144 * v[6]) % Stripe = Phase % Stripe}
Init == view = <<"start">>
Next == \/ /\ Len(view) = 1
           /\ view' \in {<<"grp", g, h, j>> : g \in 1..4, h \in 1..3, j \in 1..3}
        \/ /\ Len(view) = 4
           /\ view' \in {v \in AllViews : /\ (v[1] % 4) + 1 = view[2]
                                          /\ v[IF Mode = "views" THEN 5 ELSE 4] = view[3]
                                          /\ (v[IF Mode = "views" THEN 4 ELSE 5] % 3) + 1 = view[4]}
IsView == Len(view) >= 5

(* views *)
ViewInRange == (IsView /\ Mode = "views") => ViewScore(view[1], view[2], view[3], view[4], view[5]) \in 0..100
EmitView == (IsView /\ Mode = "views") =>
  PrintT("@V" \o ToJson([i |-> view, s |-> ViewScore(view[1], view[2], view[3], view[4], view[5]),
                         tie |-> ViewTie(view[1], view[2], view[3], view[4], view[5])]))

(* classes: the monolithic definition on every class of this outer tuple *)
OuterRec == [m \in {"AV", "AC", "AT", "PR", "UI", "E"} |->
               LET k == CHOOSE j \in 1..6 : OuterM[j] = m IN EffVals[m][view[k]]]
ClassOf(in) == [m \in Rng(ScoreMetrics) |-> IF m \in DOMAIN OuterRec THEN OuterRec[m] ELSE in[m]]
InnerM == <<"VC", "VI", "VA", "SC", "SI", "SA", "CR", "IR", "AR">>
Inner == [Rng(InnerM) -> {"H", "L", "N", "S", "M"}]
InnerDom == {in \in [VC : V("VC"), VI : V("VI"), VA : V("VA"), SC : V("SC"), SI : V("SI"), SA : V("SA"),
                     CR : V("CR"), IR : V("IR"), AR : V("AR")] : TRUE}
Composed(e) ==
  ViewScore(IdxOf(P1, Part1(e)), IdxOf(P2, Part2(e)), IdxOf(P36, Part36(e)), IdxOf(P4, Part4(e)), EQ5(e) + 1)
(* one severity step up of metric m (towards rank 0), or the same class if none *)
MoreSevere(e, m) ==
  LET r == Rank[m][e[m]]
      C == {x \in V(m) : Rank[m][x] = r - 1}
  IN  IF C = {} THEN e ELSE [e EXCEPT ![m] = CHOOSE x \in C : TRUE]
RankE == [A |-> 0, P |-> 1, U |-> 2]
(* scores of all 34,992 inner classes of this outer tuple, evaluated once *)
ClassesOK == (IsView /\ Mode = "classes") =>
  LET f == [in \in InnerDom |-> ScoreEff(ClassOf(in))] @@ <<>>
  IN  \A in \in InnerDom :
        LET e == ClassOf(in)
            sc == f[in]
        IN  /\ sc \in 0..100
            /\ sc = Composed(e)
            \* one severity step up along an inner metric: a lookup in f
            /\ \A m \in Rng(InnerM) :
                 LET e2 == MoreSevere(e, m) IN f[[k \in Rng(InnerM) |-> e2[k]]] >= sc
            \* along an outer metric: the neighbouring outer tuple
            /\ \A m \in {"AV", "AC", "AT", "PR", "UI"} : ScoreEff(MoreSevere(e, m)) >= sc
            /\ (e.E # "A" => ScoreEff([e EXCEPT !.E = IF e.E = "U" THEN "P" ELSE "A"]) >= sc)
=============================================================================
