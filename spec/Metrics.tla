------------------------------ MODULE Metrics ------------------------------
(***************************************************************************)
(* Metric tables of CVSS v2.0, v3.0, v3.1 and v4.0, transcribed from the   *)
(* FIRST documents (v2 guide section 2, v3.x specification sections 2-4   *)
(* and 6, v4.0 specification sections 2-4 and 7).  Values are the          *)
(* abbreviated spellings used in vector strings.  There are deliberately   *)
(* no numeric codes and no bit layout here: none of the properties         *)
(* mentions them.                                                          *)
(***************************************************************************)
EXTENDS Naturals, Sequences, FiniteSets

Versions == <<"2.0", "3.0", "3.1", "4.0">>
VersionSet == {"2.0", "3.0", "3.1", "4.0"}

(* ---- v2.0 -------------------------------------------------------------- *)
Base20 == <<"AV", "AC", "Au", "C", "I", "A">>
Temp20 == <<"E", "RL", "RC">>
Env20  == <<"CDP", "TD", "CR", "IR", "AR">>
Order20 == Base20 \o Temp20 \o Env20
Vals20 == [ AV  |-> <<"L", "A", "N">>,
            AC  |-> <<"H", "M", "L">>,
            Au  |-> <<"M", "S", "N">>,
            C   |-> <<"N", "P", "C">>,
            I   |-> <<"N", "P", "C">>,
            A   |-> <<"N", "P", "C">>,
            E   |-> <<"U", "POC", "F", "H", "ND">>,
            RL  |-> <<"OF", "TF", "W", "U", "ND">>,
            RC  |-> <<"UC", "UR", "C", "ND">>,
            CDP |-> <<"N", "L", "LM", "MH", "H", "ND">>,
            TD  |-> <<"N", "L", "M", "H", "ND">>,
            CR  |-> <<"L", "M", "H", "ND">>,
            IR  |-> <<"L", "M", "H", "ND">>,
            AR  |-> <<"L", "M", "H", "ND">> ]

(* ---- v3.0 / v3.1 (same metrics and values) ----------------------------- *)
Base3x == <<"AV", "AC", "PR", "UI", "S", "C", "I", "A">>
Temp3x == <<"E", "RL", "RC">>
Env3x  == <<"CR", "IR", "AR", "MAV", "MAC", "MPR", "MUI", "MS", "MC", "MI", "MA">>
Order3x == Base3x \o Temp3x \o Env3x
Vals3x == [ AV  |-> <<"N", "A", "L", "P">>,
            AC  |-> <<"L", "H">>,
            PR  |-> <<"N", "L", "H">>,
            UI  |-> <<"N", "R">>,
            S   |-> <<"U", "C">>,
            C   |-> <<"H", "L", "N">>,
            I   |-> <<"H", "L", "N">>,
            A   |-> <<"H", "L", "N">>,
            E   |-> <<"X", "H", "F", "P", "U">>,
            RL  |-> <<"X", "U", "W", "T", "O">>,
            RC  |-> <<"X", "C", "R", "U">>,
            CR  |-> <<"X", "H", "M", "L">>,
            IR  |-> <<"X", "H", "M", "L">>,
            AR  |-> <<"X", "H", "M", "L">>,
            MAV |-> <<"X", "N", "A", "L", "P">>,
            MAC |-> <<"X", "L", "H">>,
            MPR |-> <<"X", "N", "L", "H">>,
            MUI |-> <<"X", "N", "R">>,
            MS  |-> <<"X", "U", "C">>,
            MC  |-> <<"X", "H", "L", "N">>,
            MI  |-> <<"X", "H", "L", "N">>,
            MA  |-> <<"X", "H", "L", "N">> ]

(* ---- v4.0 ---------------------------------------------------------------- *)
Base40 == <<"AV", "AC", "AT", "PR", "UI", "VC", "VI", "VA", "SC", "SI", "SA">>
Threat40 == <<"E">>
Env40  == <<"CR", "IR", "AR", "MAV", "MAC", "MAT", "MPR", "MUI",
            "MVC", "MVI", "MVA", "MSC", "MSI", "MSA">>
Supp40 == <<"S", "AU", "R", "V", "RE", "U">>
Order40 == Base40 \o Threat40 \o Env40 \o Supp40
Vals40 == [ AV  |-> <<"N", "A", "L", "P">>,
            AC  |-> <<"L", "H">>,
            AT  |-> <<"N", "P">>,
            PR  |-> <<"N", "L", "H">>,
            UI  |-> <<"N", "P", "A">>,
            VC  |-> <<"H", "L", "N">>,
            VI  |-> <<"H", "L", "N">>,
            VA  |-> <<"H", "L", "N">>,
            SC  |-> <<"H", "L", "N">>,
            SI  |-> <<"H", "L", "N">>,
            SA  |-> <<"H", "L", "N">>,
            E   |-> <<"X", "A", "P", "U">>,
            CR  |-> <<"X", "H", "M", "L">>,
            IR  |-> <<"X", "H", "M", "L">>,
            AR  |-> <<"X", "H", "M", "L">>,
            MAV |-> <<"X", "N", "A", "L", "P">>,
            MAC |-> <<"X", "L", "H">>,
            MAT |-> <<"X", "N", "P">>,
            MPR |-> <<"X", "N", "L", "H">>,
            MUI |-> <<"X", "N", "P", "A">>,
            MVC |-> <<"X", "H", "L", "N">>,
            MVI |-> <<"X", "H", "L", "N">>,
            MVA |-> <<"X", "H", "L", "N">>,
            MSC |-> <<"X", "H", "L", "N">>,
            MSI |-> <<"X", "S", "H", "L", "N">>,
            MSA |-> <<"X", "S", "H", "L", "N">>,
            S   |-> <<"X", "P", "N">>,
            AU  |-> <<"X", "N", "Y">>,
            R   |-> <<"X", "A", "U", "I">>,
            V   |-> <<"X", "D", "C">>,
            RE  |-> <<"X", "L", "M", "H">>,
            U   |-> <<"X", "Clear", "Green", "Amber", "Red">> ]

(* ---- version-indexed views ---------------------------------------------- *)
Order(ver) == CASE ver = "2.0" -> Order20
                [] ver = "3.0" -> Order3x
                [] ver = "3.1" -> Order3x
                [] ver = "4.0" -> Order40

ValueSeq(ver) == CASE ver = "2.0" -> Vals20
                   [] ver = "3.0" -> Vals3x
                   [] ver = "3.1" -> Vals3x
                   [] ver = "4.0" -> Vals40

Rng(s) == {s[i] : i \in DOMAIN s}

(* tables evaluated once by TLC (constant definitions); note that TLC decides constancy  *)
(* by NAME: no model may declare a state variable called ver, m, i or s                *)
MetricSetT == [ver \in VersionSet |-> Rng(Order(ver))]
MetricSet(ver) == MetricSetT[ver]
ValuesT == [ver \in VersionSet |-> [m \in MetricSetT[ver] |-> Rng(ValueSeq(ver)[m])]]
Values(ver, m) == ValuesT[ver][m]

BaseSeq(ver) == CASE ver = "2.0" -> Base20
                  [] ver = "3.0" -> Base3x
                  [] ver = "3.1" -> Base3x
                  [] ver = "4.0" -> Base40
MandatoryT == [ver \in VersionSet |-> Rng(BaseSeq(ver))]
Mandatory(ver) == MandatoryT[ver]
OptionalT == [ver \in VersionSet |-> MetricSetT[ver] \ MandatoryT[ver]]
Optional(ver) == OptionalT[ver]

Undef(ver) == IF ver = "2.0" THEN "ND" ELSE "X"

(* Header as written in a vector.  v3: followed directly by the first       *)
(* element; v4: every element is preceded by "/"; v2: no header.            *)
Header(ver) == CASE ver = "2.0" -> ""
                 [] ver = "3.0" -> "CVSS:3.0/"
                 [] ver = "3.1" -> "CVSS:3.1/"
                 [] ver = "4.0" -> "CVSS:4.0"

(* position of metric m in the specification order *)
PosT == [ver \in VersionSet |-> [m \in MetricSetT[ver] |-> CHOOSE i \in DOMAIN Order(ver) : Order(ver)[i] = m]]
Pos(ver, m) == PosT[ver][m]

(* v2 groups: a started group must be written in full *)
Groups20 == <<Base20, Temp20, Env20>>

(* v4 metric groups, used by Nomenclature *)
EnvSet40 == Rng(Env40)
SuppSet40 == Rng(Supp40)

(* Modified metric -> the base metric it overrides *)
Overrides3x == [ MAV |-> "AV", MAC |-> "AC", MPR |-> "PR", MUI |-> "UI",
                 MS |-> "S", MC |-> "C", MI |-> "I", MA |-> "A" ]
Overrides40 == [ MAV |-> "AV", MAC |-> "AC", MAT |-> "AT", MPR |-> "PR", MUI |-> "UI",
                 MVC |-> "VC", MVI |-> "VI", MVA |-> "VA", MSC |-> "SC",
                 MSI |-> "SI", MSA |-> "SA" ]

(* size of the assignment spaces, as a transcription guard (fits 32 bits   *)
(* only for v2; the others are checked factor by factor in MC_Static)       *)
Card(ver, m) == Len(ValueSeq(ver)[m])

(* ---- objects -------------------------------------------------------------- *)
(* An object is a total assignment of a legal value to every metric.          *)
Objects(ver) == [MetricSet(ver) -> STRING]
WellFormed(ver, o) == /\ DOMAIN o = MetricSet(ver)
                      /\ \A m \in MetricSet(ver) : o[m] \in Values(ver, m)
=============================================================================
