------------------------------- MODULE Object -------------------------------
(***************************************************************************)
(* The abstract CVSS object: a total assignment metric -> value, and the   *)
(* Get / Set operations of the public API (C07, C09, C18).  Abbreviations  *)
(* and values offered by a caller are arbitrary byte strings.              *)
(***************************************************************************)
EXTENDS Vector

NoErr == [kind |-> "none", abv |-> <<>>]
Err(kind) == [kind |-> kind, abv |-> <<>>]
ErrAbv(kind, a) == [kind |-> kind, abv |-> a]

(* the metric whose abbreviation is spelled exactly by the bytes a *)
(* reverse tables bytes -> name, evaluated once *)
MetricByBytes == AbvTable
ValueByBytes == ValTable

MetricOf(ver, a) == IF a \in DOMAIN MetricByBytes[ver] THEN MetricByBytes[ver][a] ELSE NoMetric

ValueOf(ver, m, v) == IF v \in DOMAIN ValueByBytes[ver][m] THEN ValueByBytes[ver][m][v] ELSE NoMetric

(* Set: unknown abbreviation -> *ErrInvalidMetric{abv}; illegal value ->    *)
(* ErrInvalidMetricValue; in both cases the object is unchanged.  A          *)
(* successful Set changes exactly that metric (the frame condition of C07    *)
(* is the EXCEPT).                                                           *)
SetB(ver, o, a, v) ==
  LET m == MetricOf(ver, a)
  IN  IF m = NoMetric THEN [ok |-> FALSE, err |-> ErrAbv("metric", a), obj |-> o]
      ELSE LET x == ValueOf(ver, m, v)
           IN  IF x = NoMetric THEN [ok |-> FALSE, err |-> Err("value"), obj |-> o]
               ELSE [ok |-> TRUE, err |-> NoErr, obj |-> [o EXCEPT ![m] = x]]

GetB(ver, o, a) ==
  LET m == MetricOf(ver, a)
  IN  IF m = NoMetric THEN [ok |-> FALSE, err |-> ErrAbv("metric", a), val |-> ""]
      ELSE [ok |-> TRUE, err |-> NoErr, val |-> o[m]]

(* Frame lemma of C07 on the abstract object (checked by TLC on the bounded  *)
(* alphabets in MC_Object): nothing but the target changes, failed Set       *)
(* changes nothing.                                                          *)
FrameOK(ver, o, a, v) ==
  LET r == SetB(ver, o, a, v)
      m == MetricOf(ver, a)
  IN  /\ r.ok => /\ m # NoMetric
                 /\ r.obj[m] = ValueOf(ver, m, v)
                 /\ \A m2 \in MetricSet(ver) : m2 # m => r.obj[m2] = o[m2]
      /\ ~r.ok => r.obj = o
=============================================================================
