----------------------------- MODULE ObjectCore -----------------------------
(***************************************************************************)
(* The Get / Set core of Object.tla with the two lookups (abbreviation ->   *)
(* metric, value spelling -> value) left abstract, so that the algebra of   *)
(* Set can be PROVED for every object, abbreviation and value (TLAPS,       *)
(* proofs/ObjectCoreProofs.tla) instead of being checked on the bounded     *)
(* alphabets only.  MC_Object checks (ASSUME CoreIsObject) that Object!SetB *)
(* and Object!GetB are exactly these definitions with the real lookups      *)
(* substituted, on every object / abbreviation / value TLC explores.        *)
(* No RECURSIVE operator here: tlapm cannot elaborate modules that have one.*)
(***************************************************************************)
CONSTANTS Metrics,          \* the version's metric names
          None,             \* "no such metric / value" (NoMetric)
          MetricOfF(_),     \* abbreviation bytes -> metric or None
          ValueOfF(_, _)    \* metric, value bytes -> value or None

CSet(o, a, v) ==
  LET m == MetricOfF(a)
  IN  IF m = None THEN [ok |-> FALSE, obj |-> o]
      ELSE LET x == ValueOfF(m, v)
           IN  IF x = None THEN [ok |-> FALSE, obj |-> o]
               ELSE [ok |-> TRUE, obj |-> [o EXCEPT ![m] = x]]

CGet(o, a) ==
  LET m == MetricOfF(a)
  IN  IF m = None THEN [ok |-> FALSE, val |-> ""] ELSE [ok |-> TRUE, val |-> o[m]]

(* C07, clause 1 and 2 *)
CFrame(o, a, v) ==
  LET r == CSet(o, a, v)
      m == MetricOfF(a)
  IN  /\ r.ok => /\ m # None
                 /\ r.obj[m] = ValueOfF(m, v)
                 /\ \A m2 \in Metrics : m2 # m => r.obj[m2] = o[m2]
      /\ ~r.ok => r.obj = o
=============================================================================
