------------------------------ MODULE ParserFns ------------------------------
(***************************************************************************)
(* Operational models of the three ParseVector implementations, one step   *)
(* per step the code takes:                                                *)
(*   v2.0  - split at the first 13 "/" (14th part keeps the remainder),    *)
(*           walk the 3-group order table, temporal-or-environmental       *)
(*           choice at the first element after the base group;             *)
(*   v3.x  - header, elements split at "/" and cut at the first ":", a     *)
(*           "seen" record (unknown -> metric error, duplicate ->          *)
(*           definedN) THEN the value check, finally the ordered           *)
(*           "missing" checks;                                             *)
(*   v4.0  - header, chunks that must each start with "/", the inner       *)
(*           order walk as its own step (skips optional metrics, never a   *)
(*           base metric), value check, final "too short" check.           *)
(* The step relation is written once, as the function PStep on a record;   *)
(* the actions below take one PStep each (exhaustive configs: TLC sees     *)
(* every cursor state, checks the walk terminates), and Run iterates it    *)
(* to completion in one go (big-step configs, 10x fewer states).           *)
(* The declarative Grammar is what they must refine (checked by TLC:       *)
(* accepted <=> WF, and the object built = Meaning).                       *)
(***************************************************************************)
EXTENDS Object, TLC

Unset == "?"
Fresh(ver) == [m \in MetricSet(ver) |-> IF m \in Mandatory(ver) THEN Unset ELSE Undef(ver)]

NoPend == [a |-> <<>>, v |-> <<>>]

(* pc: "build" (input under construction, see MC_Parse), "start", "elem",   *)
(* "walk", "set", "done"                                                    *)
PInit(ver, pc0) ==
  [ pc |-> pc0, parts |-> <<>>, slci |-> 0, oi |-> 0, seen |-> {}, pend |-> NoPend,
    obj |-> Fresh(ver), res |-> [ok |-> FALSE, err |-> NoErr] ]

Fail(s, e) == [s EXCEPT !.pc = "done", !.res = [ok |-> FALSE, err |-> e]]

(* ---- splitting as the code does it ---------------------------------------- *)
Split14(b) ==
  LET P == SepPos(b, SLASH)
      Q == IF Len(P) > 13 THEN SubSeq(P, 1, 13) ELSE P
      R == <<0>> \o Q \o <<Len(b) + 1>>
  IN  Mat([k \in 1..(Len(R) - 1) |-> SubSeq(b, R[k] + 1, R[k + 1] - 1)])

(* v4: the scan starts at the second byte; every chunk keeps its first byte *)
Chunks40(rest) ==
  IF rest = <<>> THEN <<>>
  ELSE LET P == SelectSeq(SepPos(rest, SLASH), LAMBDA j : j >= 2)
           R == <<1>> \o P \o <<Len(rest) + 1>>
       IN  Mat([k \in 1..(Len(R) - 1) |-> SubSeq(rest, R[k], R[k + 1] - 1)])

Groups40 == <<Base40, Threat40, Env40, Supp40>>

(* ---- start: header check and splitting ------------------------------------ *)
StartF(c, s) ==
  LET ver == c.ver
      h == SB[Header(ver)]
  IN  IF ver # "2.0" /\ ~HasPrefix(c.b, h)
      THEN Fail(s, Err("header"))
      ELSE [s EXCEPT !.pc = "elem",
                     !.parts = CASE ver = "2.0" -> Split14(c.b)
                                 [] ver \in {"3.0", "3.1"} -> Split(DropPrefix(c.b, Len(h)), SLASH)
                                 [] ver = "4.0" -> Chunks40(DropPrefix(c.b, Len(h)))]

(* ---- v2.0: one element ------------------------------------------------------ *)
Elem20F(c, s) ==
  LET kv == Cut(Head(s.parts))
      \* the temporal-or-environmental choice
      jump == s.slci = 1 /\ s.oi = 0 /\ kv.a # SB[Groups20[2][1]]
      g == IF jump THEN 2 ELSE s.slci
  IN  IF s.slci = 3 THEN Fail(s, Err("value"))       \* nothing may follow the environmental group
      ELSE IF kv.a # SB[Groups20[g + 1][s.oi + 1]] THEN Fail(s, Err("order"))
      ELSE LET r == SetB("2.0", s.obj, kv.a, kv.v)
           IN  IF ~r.ok THEN Fail(s, r.err)
               ELSE LET wrap == s.oi + 1 = Len(Groups20[g + 1])
                    IN  [s EXCEPT !.obj = r.obj, !.parts = Tail(s.parts),
                                  !.slci = IF wrap THEN g + 1 ELSE g,
                                  !.oi = IF wrap THEN 0 ELSE s.oi + 1]

(* ---- v3.x: one element -------------------------------------------------------- *)
Elem3xF(c, s) ==
  LET kv == Cut(Head(s.parts))
      m == MetricOf(c.ver, kv.a)
  IN  IF m = NoMetric THEN Fail(s, ErrAbv("metric", kv.a))
      ELSE IF m \in s.seen THEN Fail(s, ErrAbv("definedN", kv.a))
      ELSE LET r == SetB(c.ver, s.obj, kv.a, kv.v)
           IN  IF ~r.ok THEN Fail(s, r.err)
               ELSE [s EXCEPT !.obj = r.obj, !.seen = s.seen \cup {m}, !.parts = Tail(s.parts)]

(* ---- v4.0: chunk, order walk, set ------------------------------------------------ *)
Elem40F(c, s) ==
  LET ch == Head(s.parts)
  IN  IF ch[1] # SLASH THEN Fail(s, Err("value"))
      ELSE LET kv == Cut(Tail(ch))
           IN  [s EXCEPT !.pend = [a |-> kv.a, v |-> kv.v], !.parts = Tail(s.parts), !.pc = "walk"]

Walk40F(c, s) ==
  IF s.slci = 4 \/ (s.slci = 0 /\ s.pend.a # SB[Groups40[1][s.oi + 1]])
  THEN Fail(s, Err("order"))
  ELSE LET out == s.pend.a = SB[Groups40[s.slci + 1][s.oi + 1]]
           wrap == s.oi + 1 = Len(Groups40[s.slci + 1])
       IN  [s EXCEPT !.slci = IF wrap THEN s.slci + 1 ELSE s.slci,
                     !.oi = IF wrap THEN 0 ELSE s.oi + 1,
                     !.pc = IF out THEN "set" ELSE "walk"]

Set40F(c, s) ==
  LET r == SetB("4.0", s.obj, s.pend.a, s.pend.v)
  IN  IF ~r.ok THEN Fail(s, r.err)
      ELSE [s EXCEPT !.obj = r.obj, !.pend = NoPend, !.pc = "elem"]

(* ---- end of input ------------------------------------------------------------------ *)
FirstMissing(ver, seen) ==
  LET B == BaseSeq(ver)
      KK == {k \in 1..Len(B) : B[k] \notin seen}
  IN  IF KK = {} THEN NoMetric ELSE B[CHOOSE k \in KK : \A j \in KK : k <= j]

FinishF(c, s) ==
  LET ver == c.ver
      e == CASE ver = "2.0" -> IF s.oi # 0 THEN Err("short") ELSE NoErr
             [] ver \in {"3.0", "3.1"} ->
                  IF FirstMissing(ver, s.seen) # NoMetric
                  THEN ErrAbv("missing", SB[FirstMissing(ver, s.seen)]) ELSE NoErr
             [] ver = "4.0" -> IF s.slci = 0 THEN Err("short") ELSE NoErr
  IN  [s EXCEPT !.pc = "done", !.res = [ok |-> e = NoErr, err |-> e]]

(* the step function: defined exactly when pc is one of the running states *)
PStep(c, s) ==
  CASE s.pc = "start" -> StartF(c, s)
    [] s.pc = "elem" /\ s.parts = <<>> -> FinishF(c, s)
    [] s.pc = "elem" /\ s.parts # <<>> /\ c.ver = "2.0" -> Elem20F(c, s)
    [] s.pc = "elem" /\ s.parts # <<>> /\ c.ver \in {"3.0", "3.1"} -> Elem3xF(c, s)
    [] s.pc = "elem" /\ s.parts # <<>> /\ c.ver = "4.0" -> Elem40F(c, s)
    [] s.pc = "walk" -> Walk40F(c, s)
    [] s.pc = "set" -> Set40F(c, s)

RECURSIVE Run(_, _)
Run(c, s) == IF s.pc = "done" THEN s ELSE Run(c, PStep(c, s))

(* the whole call as a function of the input: used by the trace specs *)
ParseResult(ver, b) == Run([ver |-> ver, b |-> b], PInit(ver, "start"))

=============================================================================
