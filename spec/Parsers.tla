------------------------------ MODULE Parsers ------------------------------
(***************************************************************************)
(* State-machine view of the operational parser models of ParserFns: one   *)
(* action per kind of step (so that TLC shows every cursor state and       *)
(* -coverage every action), the big-step action, and the properties the    *)
(* automata must satisfy with respect to the declarative Grammar.          *)
(***************************************************************************)
EXTENDS ParserFns

VARIABLES inp,    \* [ver, b, tag, exp] - the call under consideration
          ps      \* parser state: [pc, parts, slci, oi, seen, pend, obj, res]

pvars == <<inp, ps>>

(* ---- actions (one per kind of step, so that -coverage shows each) --------------------- *)
Start  == ps.pc = "start" /\ ps' = StartF(inp, ps) /\ UNCHANGED inp
Elem20 == ps.pc = "elem" /\ ps.parts # <<>> /\ inp.ver = "2.0" /\ ps' = Elem20F(inp, ps) /\ UNCHANGED inp
Elem3x == ps.pc = "elem" /\ ps.parts # <<>> /\ inp.ver \in {"3.0", "3.1"} /\ ps' = Elem3xF(inp, ps) /\ UNCHANGED inp
Elem40 == ps.pc = "elem" /\ ps.parts # <<>> /\ inp.ver = "4.0" /\ ps' = Elem40F(inp, ps) /\ UNCHANGED inp
Walk40 == ps.pc = "walk" /\ ps' = Walk40F(inp, ps) /\ UNCHANGED inp
Set40  == ps.pc = "set" /\ ps' = Set40F(inp, ps) /\ UNCHANGED inp
Finish == ps.pc = "elem" /\ ps.parts = <<>> /\ ps' = FinishF(inp, ps) /\ UNCHANGED inp

ParseStep == Start \/ Elem20 \/ Elem3x \/ Elem40 \/ Walk40 \/ Set40 \/ Finish
BigRun == ps.pc = "start" /\ ps' = Run(inp, ps) /\ UNCHANGED inp

(* ---- what the automata must satisfy --------------------------------------------------- *)
Done == ps.pc = "done"

(* refinement of the declarative grammar (C01) and of Meaning (C06) *)
RefinesGrammar == Done => (ps.res.ok <=> WF(inp.ver, inp.b))
RefinesMeaning == (Done /\ ps.res.ok) => ps.obj = Meaning(inp.ver, inp.b)
(* an accepted vector never leaves a mandatory metric unset *)
NoUnset == (Done /\ ps.res.ok) => \A m \in MetricSet(inp.ver) : ps.obj[m] \in Values(inp.ver, m)
(* a rejection always carries an error, an acceptance none *)
ErrIffReject == Done => (ps.res.ok <=> ps.res.err = NoErr)
(* cursors stay inside the order tables: the walk cannot run away *)
CursorOK == /\ ps.slci \in 0..4
            /\ (inp.ver = "2.0" /\ ps.slci < 3) => ps.oi < Len(Groups20[ps.slci + 1])
            /\ (inp.ver = "4.0" /\ ps.slci < 4) => ps.oi < Len(Groups40[ps.slci + 1])
=============================================================================
