-------------------------------- MODULE Pool --------------------------------
(***************************************************************************)
(* The only shared mutable state of the module: the sync.Pool of 14-slot   *)
(* split buffers used by the v2.0 ParseVector.  Goroutines g \in G each    *)
(* make one call.  A call is the sequence of steps the code takes around   *)
(* the buffer:                                                             *)
(*    Get    - take ANY pooled buffer, or a fresh one (sync.Pool promises  *)
(*             nothing more); the buffer keeps its stale contents;         *)
(*    Split  - write the parts of this call's vector into slots 1..n,      *)
(*             other slots keep what an earlier call left there;           *)
(*    Read   - read slot k (k <= n only) from the BUFFER and feed the      *)
(*             parser automaton (ParserFns!Elem20F); an error ends the     *)
(*             loop early;                                                 *)
(*    Put    - at return, the buffer goes back to the pool.                *)
(* What must hold (C14): every call's result is the result of the          *)
(* sequential specification on its own input alone, whatever the other     *)
(* goroutines do and whatever the buffer held before; a buffer is owned by *)
(* at most one call at a time.  Variant # "ok" selects a deliberately      *)
(* broken design (non-vacuity control: TLC must report a violation).       *)
(***************************************************************************)
EXTENDS ParserFns, FiniteSets

CONSTANTS G,         \* goroutine ids (1..n)
          Variant,   \* "ok" | "earlyput" | "notrunc"
          Coarse,    \* TRUE: reads are grouped, Return merged into Put (schedule granularity)
          ReadGroups,\* with Coarse: 3 = first read / up to the middle / rest; 1 = all reads in one step
          DetPool,   \* TRUE: Get takes the lowest pooled buffer if any (schedule emission: the harness
                     \* cannot choose the buffer, so enumerating the choice would only duplicate schedules)
          Hist       \* TRUE: the schedule so far is part of the state (every interleaving is a distinct
                     \* terminal state, printed for the gate replay); FALSE: hist stays empty

VARIABLES call,   \* g -> [inb, pc, buf, n, k, st, res]
          slots,  \* buffer id -> sequence of 14 slot contents
          owner,  \* buffer id -> goroutine holding it (0 = none)
          pool,   \* set of buffer ids in the pool
          hist    \* the schedule so far: sequence of goroutine ids (one per step)

poolvars == <<call, slots, owner, pool, hist>>

NBuf == Cardinality(G) + 1
Bufs == 1..NBuf
EmptySlots == [i \in 1..14 |-> <<>>]

C20(b) == [ver |-> "2.0", b |-> b]

(* sequential specification of one call *)
SeqResult(b) == LET r == ParseResult("2.0", b) IN [ok |-> r.res.ok, err |-> r.res.err, obj |-> IF r.res.ok THEN r.obj ELSE <<>>]

PoolInit(inputs, stale) ==
  /\ call = [g \in G |-> [inb |-> inputs[g], pc |-> "idle", buf |-> 0, n |-> 0, k |-> 1,
                          st |-> PInit("2.0", "elem"), res |-> <<>>]]
  /\ slots = [b \in Bufs |-> IF b = NBuf THEN stale ELSE EmptySlots]
  /\ owner = [b \in Bufs |-> 0]
  /\ pool = {NBuf}                 \* one buffer already pooled, holding stale contents
  /\ hist = <<>>

Step(g) == hist' = IF Hist THEN Append(hist, g) ELSE hist

(* a fresh buffer is one never used: not pooled, not owned *)
FreshBuf(b) == b \notin pool /\ owner[b] = 0 /\ slots[b] = EmptySlots /\ b # NBuf

Get(g) ==
  /\ call[g].pc = "idle"
  /\ \E b \in Bufs :
       /\ IF DetPool /\ pool # {}
          THEN b \in pool /\ \A b2 \in pool : b <= b2
          ELSE b \in pool \/ (FreshBuf(b) /\ \A b2 \in Bufs : (FreshBuf(b2) => b <= b2))   \* any pooled one, or the next fresh one
       /\ pool' = pool \ {b}
       /\ owner' = [owner EXCEPT ![b] = g]
       /\ call' = [call EXCEPT ![g].pc = "got", ![g].buf = b]
  /\ UNCHANGED slots /\ Step(g)

SplitStep(g) ==
  /\ call[g].pc = "got"
  /\ LET parts == Split14(call[g].inb)
         b == call[g].buf
     IN  /\ slots' = [slots EXCEPT ![b] = [i \in 1..14 |-> IF i <= Len(parts) THEN parts[i] ELSE slots[b][i]]]
         /\ call' = [call EXCEPT ![g].pc = IF Variant = "earlyput" THEN "loop-put" ELSE "loop",
                                 ![g].n = IF Variant = "notrunc" THEN 14 ELSE Len(parts)]
  /\ UNCHANGED <<owner, pool>> /\ Step(g)

(* broken variant: the buffer goes back to the pool BEFORE the loop reads it *)
EarlyPut(g) ==
  /\ call[g].pc = "loop-put"
  /\ pool' = pool \cup {call[g].buf}
  /\ owner' = [owner EXCEPT ![call[g].buf] = 0]
  /\ call' = [call EXCEPT ![g].pc = "loop"]
  /\ UNCHANGED slots /\ Step(g)

(* one element: read slot k of the buffer, run one automaton step on it *)
ReadOne(c) ==
  IF c.st.pc = "done" \/ c.k > c.n THEN c
  ELSE LET s2 == Elem20F(C20(c.inb), [c.st EXCEPT !.parts = <<slots[c.buf][c.k]>>])
       IN  [c EXCEPT !.st = s2, !.k = c.k + 1]
Finished(c) == c.st.pc = "done" \/ c.k > c.n
(* schedule granularity: groups end after the first read, after the middle one, at the end *)
GroupEnd(c) == Finished(c) \/ (ReadGroups = 3 /\ (c.k = 2 \/ c.k = ((c.n + 1) \div 2) + 1))
RECURSIVE ReadGroup(_)
ReadGroup(c) == LET c2 == ReadOne(c) IN IF GroupEnd(c2) THEN c2 ELSE ReadGroup(c2)

Read(g) ==
  /\ call[g].pc = "loop" /\ ~Finished(call[g])
  /\ call' = [call EXCEPT ![g] = IF Coarse THEN ReadGroup(call[g]) ELSE ReadOne(call[g])]
  /\ UNCHANGED <<slots, owner, pool>> /\ Step(g)

Return(g) ==
  /\ ~Coarse
  /\ call[g].pc = "loop" /\ Finished(call[g])
  /\ LET c == call[g]
         fin == IF c.st.pc = "done" THEN c.st ELSE FinishF(C20(c.inb), [c.st EXCEPT !.parts = <<>>])
     IN  call' = [call EXCEPT ![g].pc = "ret", ![g].st = fin,
                              ![g].res = [ok |-> fin.res.ok, err |-> fin.res.err,
                                          obj |-> IF fin.res.ok THEN fin.obj ELSE <<>>]]
  /\ UNCHANGED <<slots, owner, pool>> /\ Step(g)

Put(g) ==
  /\ call[g].pc = "ret" \/ (Coarse /\ call[g].pc = "loop" /\ Finished(call[g]))
  /\ pool' = IF Variant = "earlyput" THEN pool ELSE pool \cup {call[g].buf}
  /\ owner' = IF Variant = "earlyput" THEN owner ELSE [owner EXCEPT ![call[g].buf] = 0]
  /\ LET c == call[g]
         fin == IF c.st.pc = "done" THEN c.st ELSE FinishF(C20(c.inb), [c.st EXCEPT !.parts = <<>>])
     IN  call' = IF c.pc = "ret" THEN [call EXCEPT ![g].pc = "done"]
                 ELSE [call EXCEPT ![g].pc = "done", ![g].st = fin,
                                   ![g].res = [ok |-> fin.res.ok, err |-> fin.res.err,
                                               obj |-> IF fin.res.ok THEN fin.obj ELSE <<>>]]
  /\ UNCHANGED slots /\ Step(g)

PoolNext == \E g \in G : Get(g) \/ SplitStep(g) \/ EarlyPut(g) \/ Read(g) \/ Return(g) \/ Put(g)

AllDone == \A g \in G : call[g].pc = "done"

(* ---- what must hold ---------------------------------------------------------------------- *)
Holding(g) == call[g].pc \in {"got", "loop", "loop-put", "ret"}
ExclusiveOwnership ==
  \A g1, g2 \in G : (g1 # g2 /\ Holding(g1) /\ Holding(g2)) => call[g1].buf # call[g2].buf
OwnerConsistent ==
  \A g \in G : (Holding(g) /\ Variant = "ok") => owner[call[g].buf] = g /\ call[g].buf \notin pool
(* the result of every call is the sequential specification's, on its own input alone *)
ResultIsSequential ==
  \A g \in G : call[g].pc \in {"ret", "done"} => call[g].res = SeqResult(call[g].inb)
(* every call terminates: the step counter is bounded *)
Terminates == <>AllDone
=============================================================================
