------------------------------- MODULE Rating -------------------------------
(***************************************************************************)
(* Qualitative severity rating scale (v3.x section 5, v4.0 section 6):     *)
(* None 0.0, Low 0.1-3.9, Medium 4.0-6.9, High 7.0-8.9, Critical 9.0-10.0. *)
(* C15 extends it to every real number: NONE on [0,0.1), LOW on [0.1,4),   *)
(* MEDIUM on [4,7), HIGH on [7,9), CRITICAL on [9,10], out of bounds        *)
(* otherwise.  A number is given EXACTLY as sign, integer digits (most      *)
(* significant first, no leading zero) and fraction digits (no trailing    *)
(* zero), or as an infinity - every float64 is such a finite decimal.      *)
(***************************************************************************)
EXTENDS Integers, Sequences

OutOfBounds == "!bounds"

IsZeroX(x) == x.int = <<>> /\ x.frac = <<>>
(* integer part as a number, saturated at 1000 *)
IntVal(x) == IF Len(x.int) > 3 THEN 1000
             ELSE IF Len(x.int) = 0 THEN 0
             ELSE IF Len(x.int) = 1 THEN x.int[1]
             ELSE IF Len(x.int) = 2 THEN 10 * x.int[1] + x.int[2]
             ELSE 100 * x.int[1] + 10 * x.int[2] + x.int[3]

RatingOf(x) ==
  IF x.inf THEN OutOfBounds
  ELSE IF x.neg /\ ~IsZeroX(x) THEN OutOfBounds                       \* x < 0  (-0 is 0)
  ELSE IF IntVal(x) > 10 \/ (IntVal(x) = 10 /\ x.frac # <<>>) THEN OutOfBounds   \* x > 10
  ELSE IF IntVal(x) >= 9 THEN "CRITICAL"
  ELSE IF IntVal(x) >= 7 THEN "HIGH"
  ELSE IF IntVal(x) >= 4 THEN "MEDIUM"
  ELSE IF IntVal(x) >= 1 \/ (x.frac # <<>> /\ x.frac[1] >= 1) THEN "LOW"
  ELSE "NONE"

(* a number of hundredths n (any sign) as an exact decimal *)
RECURSIVE Digits(_)
Digits(n) == IF n = 0 THEN <<>> ELSE Digits(n \div 10) \o <<n % 10>>
Hundredths(n) ==
  LET m == IF n < 0 THEN 0 - n ELSE n
      f == m % 100
  IN  [inf |-> FALSE, neg |-> n < 0, int |-> Digits(m \div 100),
       frac |-> IF f = 0 THEN <<>> ELSE IF f % 10 = 0 THEN <<f \div 10>> ELSE <<f \div 10, f % 10>>]

Rank5 == [NONE |-> 0, LOW |-> 1, MEDIUM |-> 2, HIGH |-> 3, CRITICAL |-> 4]
=============================================================================
