------------------------------ MODULE Score20 ------------------------------
(***************************************************************************)
(* CVSS v2.0 equations (guide section 3.2) over the reals, exact.  The     *)
(* guide's round_to_1_decimal is not defined on exact halves, so every     *)
(* rounded stage is the SET of admissible tenths (two elements on a tie).  *)
(* Scores are in TENTHS; the literal environmental equation reaches -0.2.  *)
(***************************************************************************)
EXTENDS Metrics, BigDec

W2_AV == [L |-> 395, A |-> 646, N |-> 1000]          \* thousandths
W2_AC == [H |-> 35, M |-> 61, L |-> 71]              \* hundredths
W2_AU == [M |-> 450, S |-> 560, N |-> 704]           \* thousandths
W2_CIA == [N |-> 0, P |-> 275, C |-> 660]            \* thousandths
W2_E == [ND |-> 100, U |-> 85, POC |-> 90, F |-> 95, H |-> 100]
W2_RL == [ND |-> 100, OF |-> 87, TF |-> 90, W |-> 95, U |-> 100]
W2_RC == [ND |-> 100, UC |-> 90, UR |-> 95, C |-> 100]
W2_CDP == [ND |-> 0, N |-> 0, L |-> 1, LM |-> 3, MH |-> 4, H |-> 5]      \* tenths
W2_TD == [ND |-> 100, N |-> 0, L |-> 25, M |-> 75, H |-> 100]            \* hundredths
W2_CIAR == [ND |-> 100, L |-> 50, M |-> 100, H |-> 151]                  \* hundredths

One == Dec(1, 0)
T3(n) == Dec(n, 3)
H2(n) == Dec(n, 2)

(* Impact = 10.41 * (1 - (1-C)(1-I)(1-A)) *)
ImpactOf2(c, i, a) ==
  MulD(H2(1041), SubD(One, MulD(MulD(SubD(One, T3(W2_CIA[c])), SubD(One, T3(W2_CIA[i]))), SubD(One, T3(W2_CIA[a])))))

(* AdjustedImpact = min(10, 10.41 * (1 - (1-C*CR)(1-I*IR)(1-A*AR))) *)
AdjImpactOf2(c, i, a, cr, ir, ar) ==
  LET t(x, r) == SubD(One, MulD(T3(W2_CIA[x]), H2(W2_CIAR[r])))
  IN  MinD(Dec(10, 0), MulD(H2(1041), SubD(One, MulD(MulD(t(c, cr), t(i, ir)), t(a, ar)))))

(* Exploitability = 20 * AV * AC * Au *)
ExplOf2(av, ac, au) == MulD(MulD(MulD(Dec(20, 0), T3(W2_AV[av])), H2(W2_AC[ac])), T3(W2_AU[au]))

(* round_to_1_decimal(((0.6*Impact) + (0.4*Exploitability) - 1.5) * f(Impact)) *)
BaseLike2(imp, ex) ==
  IF IsZero(imp) THEN {0}
  ELSE RoundTenthSet(MulD(SubD(AddD(MulD(Dec(6, 1), imp), MulD(Dec(4, 1), ex)), Dec(15, 1)), T3(1176)))

(* admissible roundings of n / 10^d tenths for an integer n (either sign) *)
P10i(d) == CASE d = 3 -> 1000 [] d = 6 -> 1000000
RoundFrac(n, d) ==
  LET m == IF n < 0 THEN 0 - n ELSE n
      q2 == (2 * m) \div P10i(d)
      exact == (2 * m) % P10i(d) = 0
      pos == IF q2 % 2 = 0 THEN {q2 \div 2}
             ELSE IF exact THEN {(q2 - 1) \div 2, (q2 + 1) \div 2} ELSE {(q2 + 1) \div 2}
  IN  IF n < 0 THEN {0 - k : k \in pos} ELSE pos

(* TemporalScore = round_to_1_decimal(Base * E * RL * RC), Base = k tenths *)
TemporalOf2(k, e, rl, rc) == RoundFrac(k * W2_E[e] * W2_RL[rl] * W2_RC[rc], 6)

(* Env = round_to_1_decimal((AdjTemporal + (10 - AdjTemporal) * CDP) * TD), AdjTemporal = k tenths *)
EnvOf2(k, cdp, td) == RoundFrac((10 * k + (100 - k) * W2_CDP[cdp]) * W2_TD[td], 3)

(* ---- whole scores of an object, as sets of admissible tenths --------------------------------- *)
BaseSet2(o) == BaseLike2(ImpactOf2(o.C, o.I, o.A), ExplOf2(o.AV, o.AC, o.Au))
TemporalSet2(o) == UNION {TemporalOf2(k, o.E, o.RL, o.RC) : k \in BaseSet2(o)}
EnvSet2(o) ==
  LET ab == BaseLike2(AdjImpactOf2(o.C, o.I, o.A, o.CR, o.IR, o.AR), ExplOf2(o.AV, o.AC, o.Au))
      at == UNION {TemporalOf2(k, o.E, o.RL, o.RC) : k \in ab}
  IN  UNION {EnvOf2(k, o.CDP, o.TD) : k \in at}

SevOrder2 == [ AV |-> <<"L", "A", "N">>, AC |-> <<"H", "M", "L">>, Au |-> <<"M", "S", "N">>,
               C |-> <<"N", "P", "C">>, I |-> <<"N", "P", "C">>, A |-> <<"N", "P", "C">>,
               E |-> <<"U", "POC", "F", "H">>, RL |-> <<"OF", "TF", "W", "U">>, RC |-> <<"UC", "UR", "C">> ]
=============================================================================
