------------------------------ MODULE Score3x ------------------------------
(***************************************************************************)
(* CVSS v3.0 / v3.1 equations (specification section 7.1-7.3 / 8) over    *)
(* the reals, evaluated exactly with BigDec.  Scores are in TENTHS.        *)
(* The two versions differ only in the ModifiedImpact formula for a        *)
(* changed modified scope (v3.1: (0.9731*MISS - 0.02)^13) and in the       *)
(* wording of Roundup (same function on every value that occurs: checked). *)
(***************************************************************************)
EXTENDS Metrics, BigDec

(* ---- weights (hundredths unless said otherwise) ------------------------------ *)
W_AV == [N |-> 85, A |-> 62, L |-> 55, P |-> 20]
W_AC == [L |-> 77, H |-> 44]
W_PRU == [N |-> 85, L |-> 62, H |-> 27]     \* scope unchanged
W_PRC == [N |-> 85, L |-> 68, H |-> 50]     \* scope changed
W_UI == [N |-> 85, R |-> 62]
W_CIA == [H |-> 56, L |-> 22, N |-> 0]
W_E == [X |-> 100, H |-> 100, F |-> 97, P |-> 94, U |-> 91]
W_RL == [X |-> 100, U |-> 100, W |-> 97, T |-> 96, O |-> 95]
W_RC == [X |-> 100, C |-> 100, R |-> 96, U |-> 92]
W_CIAR == [X |-> 10, H |-> 15, M |-> 10, L |-> 5]    \* tenths

H(n) == Dec(n, 2)
Ten == Dec(10, 0)

(* ---- base ------------------------------------------------------------------------------- *)
(* ISS = 1 - (1-C)(1-I)(1-A), as an integer with 6 decimals *)
ISS6(c, i, a) == 1000000 - (100 - W_CIA[c]) * (100 - W_CIA[i]) * (100 - W_CIA[a])

(* Impact sub score from ISS (6 decimals) and scope *)
ImpactOf(s, iss6) ==
  LET iss == Dec(iss6, 6)
  IN  IF s = "U" THEN MulD(H(642), iss)
      ELSE SubD(MulD(H(752), SubD(iss, Dec(29, 3))),
                MulD(H(325), PowD(SubD(iss, H(2)), 15)))

Impact3(o) == ImpactOf(o.S, ISS6(o.C, o.I, o.A))

ExplOf(av, ac, pr, ui, s) ==
  MulD(MulD(MulD(MulD(H(822), H(W_AV[av])), H(W_AC[ac])),
            H(IF s = "C" THEN W_PRC[pr] ELSE W_PRU[pr])), H(W_UI[ui]))
Expl3(o) == ExplOf(o.AV, o.AC, o.PR, o.UI, o.S)

(* Roundup(min(...)) of impact + exploitability; 0 when impact <= 0 *)
BaseLike(s, imp, ex) ==
  IF CmpD(imp, Zero) <= 0 THEN 0
  ELSE LET sum == AddD(imp, ex)
           v == IF s = "U" THEN sum ELSE MulD(H(108), sum)
       IN  CeilTenth(MinD(v, Ten))

Base3(o) == BaseLike(o.S, Impact3(o), Expl3(o))

(* ---- temporal: Roundup(k/10 * E * RL * RC), plain integers (<= 10^8) ----------------------- *)
TemporalOf(k, e, rl, rc) == (k * W_E[e] * W_RL[rl] * W_RC[rc] + 999999) \div 1000000
Temporal3(o) == TemporalOf(Base3(o), o.E, o.RL, o.RC)

(* ---- environmental --------------------------------------------------------------------------- *)
Eff3(o) == [AV |-> IF o.MAV # "X" THEN o.MAV ELSE o.AV,
            AC |-> IF o.MAC # "X" THEN o.MAC ELSE o.AC,
            PR |-> IF o.MPR # "X" THEN o.MPR ELSE o.PR,
            UI |-> IF o.MUI # "X" THEN o.MUI ELSE o.UI,
            S  |-> IF o.MS # "X" THEN o.MS ELSE o.S,
            C  |-> IF o.MC # "X" THEN o.MC ELSE o.C,
            I  |-> IF o.MI # "X" THEN o.MI ELSE o.I,
            A  |-> IF o.MA # "X" THEN o.MA ELSE o.A]

(* MISS = min(1 - (1-CR*MC)(1-IR*MI)(1-AR*MA), 0.915), integer with 9 decimals *)
MISS9(mc, mi, ma, cr, ir, ar) ==
  LET p(x, r) == W_CIA[x] * W_CIAR[r]       \* thousandths
      m == 1000000000 - (1000 - p(mc, cr)) * (1000 - p(mi, ir)) * (1000 - p(ma, ar))
  IN  IF m > 915000000 THEN 915000000 ELSE m

ModImpactOf(ver, ms, miss9) ==
  LET miss == Dec(miss9, 9)
  IN  IF ms = "U" THEN MulD(H(642), miss)
      ELSE IF ver = "3.0"
           THEN SubD(MulD(H(752), SubD(miss, Dec(29, 3))), MulD(H(325), PowD(SubD(miss, H(2)), 15)))
           ELSE SubD(MulD(H(752), SubD(miss, Dec(29, 3))),
                     MulD(H(325), PowD(SubD(MulD(Dec(9731, 4), miss), H(2)), 13)))

(* the score before the temporal factors: Roundup(min([1.08*](MI + ME), 10)) *)
EnvPreOf(ver, ms, miss9, ex) == BaseLike(ms, ModImpactOf(ver, ms, miss9), ex)

Env3(ver, o) ==
  LET e == Eff3(o)
      pre == EnvPreOf(ver, e.S, MISS9(e.C, e.I, e.A, o.CR, o.IR, o.AR), ExplOf(e.AV, e.AC, e.PR, e.UI, e.S))
  IN  TemporalOf(pre, o.E, o.RL, o.RC)

(* ---- Roundup of Appendix A (v3.1): integer formulation ------------------------------------------ *)
(* r = round(10^5 x); r mod 10^4 = 0 ? r / 10^5 : (floor(r / 10^4) + 1) / 10 ; in tenths *)
RoundupA(x) ==
  IF IsZero(x) THEN 0
  ELSE LET y == IF x.scale < 6 THEN Rescale(x, 6) ELSE x
           d == DivPow10(MulSmall(y.mag, 2), y.scale - 5)     \* floor(2 * 10^5 * x)
           r == (d.q + 1) \div 2                              \* round half up of 10^5 x
       IN  IF r % 10000 = 0 THEN r \div 10000 ELSE (r \div 10000) + 1

(* ---- severity order, least to most severe (C12) ---------------------------------------------------- *)
SevOrder3 == [ AV |-> <<"P", "L", "A", "N">>, AC |-> <<"H", "L">>, PR |-> <<"H", "L", "N">>,
               UI |-> <<"R", "N">>, S |-> <<"U", "C">>, C |-> <<"N", "L", "H">>, I |-> <<"N", "L", "H">>,
               A |-> <<"N", "L", "H">>, E |-> <<"U", "P", "F", "H">>, RL |-> <<"O", "T", "W", "U">>,
               RC |-> <<"U", "R", "C">>, CR |-> <<"L", "M", "H">>, IR |-> <<"L", "M", "H">>,
               AR |-> <<"L", "M", "H">> ]
=============================================================================
