------------------------------ MODULE Score40 ------------------------------
(***************************************************************************)
(* CVSS v4.0 scoring (specification sections 7 and 8): effective values,   *)
(* MacroVector (EQ1..EQ6), highest-severity vectors, severity distances,   *)
(* the mean of the proportional distances, Nomenclature.  Exact integer    *)
(* arithmetic: scores are in TENTHS, the mean is a fraction over the       *)
(* common denominator 840 * n (840 = lcm of all depths), rounded half up.  *)
(***************************************************************************)
EXTENDS Metrics, Lookup40, Integers

(* ---- effective values (C10) ------------------------------------------------ *)
(* A Modified metric overrides its base metric when it is defined; undefined E    *)
(* scores as A (worst case), undefined CR/IR/AR as H.                             *)
ScoreMetrics == <<"AV", "AC", "AT", "PR", "UI", "VC", "VI", "VA", "SC", "SI", "SA", "E", "CR", "IR", "AR">>

ModOf == [AV |-> "MAV", AC |-> "MAC", AT |-> "MAT", PR |-> "MPR", UI |-> "MUI", VC |-> "MVC",
          VI |-> "MVI", VA |-> "MVA", SC |-> "MSC", SI |-> "MSI", SA |-> "MSA"]

Eff40(o) ==
  [m \in Rng(ScoreMetrics) |->
     IF m \in DOMAIN ModOf THEN (IF o[ModOf[m]] # "X" THEN o[ModOf[m]] ELSE o[m])
     ELSE IF m = "E" THEN (IF o[m] = "X" THEN "A" ELSE o[m])
     ELSE (IF o[m] = "X" THEN "H" ELSE o[m])]

(* ---- severity order of each metric: 0 = most severe ----------------------------- *)
Rank == [ AV |-> [N |-> 0, A |-> 1, L |-> 2, P |-> 3],
          PR |-> [N |-> 0, L |-> 1, H |-> 2],
          UI |-> [N |-> 0, P |-> 1, A |-> 2],
          AC |-> [L |-> 0, H |-> 1],
          AT |-> [N |-> 0, P |-> 1],
          VC |-> [H |-> 0, L |-> 1, N |-> 2],
          VI |-> [H |-> 0, L |-> 1, N |-> 2],
          VA |-> [H |-> 0, L |-> 1, N |-> 2],
          SC |-> [H |-> 1, L |-> 2, N |-> 3],
          SI |-> [S |-> 0, H |-> 1, L |-> 2, N |-> 3],
          SA |-> [S |-> 0, H |-> 1, L |-> 2, N |-> 3],
          CR |-> [H |-> 0, M |-> 1, L |-> 2],
          IR |-> [H |-> 0, M |-> 1, L |-> 2],
          AR |-> [H |-> 0, M |-> 1, L |-> 2] ]

(* ---- MacroVector (Tables 24-29) ------------------------------------------------------ *)
EQ1(e) == IF e.AV = "N" /\ e.PR = "N" /\ e.UI = "N" THEN 0
          ELSE IF (e.AV = "N" \/ e.PR = "N" \/ e.UI = "N") /\ e.AV # "P" THEN 1
          ELSE 2
EQ2(e) == IF e.AC = "L" /\ e.AT = "N" THEN 0 ELSE 1
EQ3(e) == IF e.VC = "H" /\ e.VI = "H" THEN 0
          ELSE IF e.VC = "H" \/ e.VI = "H" \/ e.VA = "H" THEN 1
          ELSE 2
EQ4(e) == IF e.SI = "S" \/ e.SA = "S" THEN 0
          ELSE IF e.SC = "H" \/ e.SI = "H" \/ e.SA = "H" THEN 1
          ELSE 2
EQ5(e) == CASE e.E = "A" -> 0 [] e.E = "P" -> 1 [] e.E = "U" -> 2
EQ6(e) == IF (e.CR = "H" /\ e.VC = "H") \/ (e.IR = "H" /\ e.VI = "H") \/ (e.AR = "H" /\ e.VA = "H")
          THEN 0 ELSE 1

MV(e) == <<EQ1(e), EQ2(e), EQ3(e), EQ4(e), EQ5(e), EQ6(e)>>

Lk(q) == LookupT[q[1] + 1][q[2] + 1][q[3] + 1][q[4] + 1][q[5] + 1][q[6] + 1]

(* ---- highest-severity vectors of each level (Tables 24, 25, 27, 30) --------------------- *)
Max1 == << { [AV |-> "N", PR |-> "N", UI |-> "N"] },
           { [AV |-> "A", PR |-> "N", UI |-> "N"], [AV |-> "N", PR |-> "L", UI |-> "N"],
             [AV |-> "N", PR |-> "N", UI |-> "P"] },
           { [AV |-> "P", PR |-> "N", UI |-> "N"], [AV |-> "A", PR |-> "L", UI |-> "P"] } >>
Max2 == << { [AC |-> "L", AT |-> "N"] },
           { [AC |-> "H", AT |-> "N"], [AC |-> "L", AT |-> "P"] } >>
Max4 == << { [SC |-> "H", SI |-> "S", SA |-> "S"] },
           { [SC |-> "H", SI |-> "H", SA |-> "H"] },
           { [SC |-> "L", SI |-> "L", SA |-> "L"] } >>
V6(vc, vi, va, cr, ir, ar) == [VC |-> vc, VI |-> vi, VA |-> va, CR |-> cr, IR |-> ir, AR |-> ar]
(* Max36[eq3+1][eq6+1] *)
Max36 == << << { V6("H", "H", "H", "H", "H", "H") },
               { V6("H", "H", "L", "M", "M", "H"), V6("H", "H", "H", "M", "M", "M") } >>,
            << { V6("L", "H", "H", "H", "H", "H"), V6("H", "L", "H", "H", "H", "H") },
               { V6("L", "H", "L", "H", "M", "H"), V6("L", "H", "H", "H", "M", "M"),
                 V6("H", "L", "H", "M", "H", "M"), V6("H", "L", "L", "M", "H", "H"),
                 V6("L", "L", "H", "H", "H", "M") } >>,
            << {},
               { V6("L", "L", "L", "H", "H", "H") } >> >>

(* depth of each level: "maxSeverity" of the reference implementation *)
Depth1 == <<1, 4, 5>>
Depth2 == <<1, 2>>
Depth4 == <<6, 5, 4>>
Depth36 == << <<7, 6>>, <<8, 8>>, <<0, 10>> >>
DD == 840          \* lcm of all depths

(* rank distance from a maximal vector mx to e over the metrics ms; -1 when some   *)
(* component of e is MORE severe than mx (mx does not qualify)                     *)
RECURSIVE DistSum(_, _, _)
DistSum(e, mx, ms) ==
  IF ms = <<>> THEN 0
  ELSE LET m == Head(ms)
           d == Rank[m][e[m]] - Rank[m][mx[m]]
           rest == DistSum(e, mx, Tail(ms))
       IN  IF d < 0 \/ rest < 0 THEN -1 ELSE d + rest

(* severity distance to a qualifying highest-severity vector of the level.  Every   *)
(* vector of a level has the same rank sum (checked by TLC: MaxRankSumsEqual), so    *)
(* the value does not depend on which qualifying one is taken.                       *)
SevDist(e, maxes, ms) ==
  LET Q == {mx \in maxes : DistSum(e, mx, ms) >= 0}
  IN  IF Q = {} THEN -1 ELSE DistSum(e, CHOOSE mx \in Q : TRUE, ms)

M1 == <<"AV", "PR", "UI">>
M2 == <<"AC", "AT">>
M36 == <<"VC", "VI", "VA", "CR", "IR", "AR">>
M4 == <<"SC", "SI", "SA">>

S1(e) == SevDist(e, Max1[EQ1(e) + 1], M1)
S2(e) == SevDist(e, Max2[EQ2(e) + 1], M2)
S36(e) == SevDist(e, Max36[EQ3(e) + 1][EQ6(e) + 1], M36)
S4(e) == SevDist(e, Max4[EQ4(e) + 1], M4)

NoImpact(e) == e.VC = "N" /\ e.VI = "N" /\ e.VA = "N" /\ e.SC = "N" /\ e.SI = "N" /\ e.SA = "N"

(* ---- the score from the MacroVector and the four distances ------------------------------- *)
(* q = <<eq1..eq6>>; s = <<s1, s2, s36, s4>>.  Terms: available distance (tenths) of each    *)
(* EQ that has a next-lower MacroVector, times distance / depth; EQ5 has distance 0 but       *)
(* counts in the mean when it has a lower level.                                              *)
MaxI(a, b) == IF a > b THEN a ELSE b
(* exact value = x / den tenths *)
ScoreFrac(q, s) ==
  LET L == Lk(q)
      has1 == q[1] < 2
      has2 == q[2] < 1
      has4 == q[4] < 2
      has5 == q[5] < 2
      has36 == ~(q[3] = 2 /\ q[6] = 1)
      a1 == IF has1 THEN L - Lk([q EXCEPT ![1] = q[1] + 1]) ELSE 0
      a2 == IF has2 THEN L - Lk([q EXCEPT ![2] = q[2] + 1]) ELSE 0
      a4 == IF has4 THEN L - Lk([q EXCEPT ![4] = q[4] + 1]) ELSE 0
      nx36 == CASE q[3] = 0 /\ q[6] = 0 -> MaxI(Lk([q EXCEPT ![3] = 1]), Lk([q EXCEPT ![6] = 1]))
                [] q[3] = 0 /\ q[6] = 1 -> Lk([q EXCEPT ![3] = 1])
                [] q[3] = 1 /\ q[6] = 1 -> Lk([q EXCEPT ![3] = 2])
                [] q[3] = 1 /\ q[6] = 0 -> Lk([q EXCEPT ![6] = 1])
                [] OTHER -> L
      a36 == IF has36 THEN L - nx36 ELSE 0
      n == (IF has1 THEN 1 ELSE 0) + (IF has2 THEN 1 ELSE 0) + (IF has4 THEN 1 ELSE 0)
           + (IF has5 THEN 1 ELSE 0) + (IF has36 THEN 1 ELSE 0)
      num == a1 * s[1] * (DD \div Depth1[q[1] + 1]) + a2 * s[2] * (DD \div Depth2[q[2] + 1])
             + a36 * s[3] * (DD \div Depth36[q[3] + 1][q[6] + 1]) + a4 * s[4] * (DD \div Depth4[q[4] + 1])
      den == DD * (IF n = 0 THEN 1 ELSE n)
  IN  [x |-> L * den - num, den |-> den]

ScoreOf(q, s) ==
  LET f == ScoreFrac(q, s)
  IN  IF f.x <= 0 THEN 0
      ELSE LET r == (2 * f.x + f.den) \div (2 * f.den)    \* round half up
           IN  IF r > 100 THEN 100 ELSE r

(* the exact value lies precisely half-way between two tenths *)
TieOf(q, s) == LET f == ScoreFrac(q, s) IN f.x > 0 /\ (2 * f.x) % (2 * f.den) = f.den

(* Score of an effective-value record, in tenths *)
ScoreEff(e) == IF NoImpact(e) THEN 0 ELSE ScoreOf(MV(e), <<S1(e), S2(e), S36(e), S4(e)>>)
Score40(o) == ScoreEff(Eff40(o))

(* ---- Nomenclature (section 1.3) -------------------------------------------------------------- *)
Nomenclature(o) ==
  LET t == o["E"] # "X"
      en == \E m \in EnvSet40 : o[m] # "X"
  IN  IF t THEN (IF en THEN "CVSS-BTE" ELSE "CVSS-BT") ELSE (IF en THEN "CVSS-BE" ELSE "CVSS-B")

(* second formulation: "CVSS-B" followed by T iff ..., by E iff ...  (TLC checks both equal) *)
Nomenclature2(o) ==
  LET defined(ms) == {m \in ms : o[m] # "X"} # {}
  IN  CASE defined({"E"}) /\ defined(EnvSet40) -> "CVSS-BTE"
        [] defined({"E"}) /\ ~defined(EnvSet40) -> "CVSS-BT"
        [] ~defined({"E"}) /\ defined(EnvSet40) -> "CVSS-BE"
        [] OTHER -> "CVSS-B"

(* ---- effective classes --------------------------------------------------------------------------- *)
EffVals == [ AV |-> <<"N", "A", "L", "P">>, AC |-> <<"L", "H">>, AT |-> <<"N", "P">>,
             PR |-> <<"N", "L", "H">>, UI |-> <<"N", "P", "A">>,
             VC |-> <<"H", "L", "N">>, VI |-> <<"H", "L", "N">>, VA |-> <<"H", "L", "N">>,
             SC |-> <<"H", "L", "N">>, SI |-> <<"S", "H", "L", "N">>, SA |-> <<"S", "H", "L", "N">>,
             E |-> <<"A", "P", "U">>, CR |-> <<"H", "M", "L">>, IR |-> <<"H", "M", "L">>,
             AR |-> <<"H", "M", "L">> ]
=============================================================================
