-------------------------------- MODULE Trace --------------------------------
(***************************************************************************)
(* M3: validation of traces RECORDED FROM THE REAL CODE against the        *)
(* specification.  The recorder (harness mode "record") drives the public  *)
(* API and writes one JSON object per call at its return; this module      *)
(* consumes the file event by event: the logged result must be the result  *)
(* the specification gives for the logged arguments and receiver value,    *)
(* the receiver after the call must be the specified one, and an object's  *)
(* value before a call must be its value after its previous call (object   *)
(* continuity: catches aliasing between distinct objects and history       *)
(* dependence).  Unexplained events are collected in `bad` (so that one    *)
(* run reports all of them) and printed; acceptance = all lines consumed   *)
(* and `bad` empty (POSTCONDITION).                                        *)
(***************************************************************************)
EXTENDS ParserFns, Score40, Score3x, Score20, Rating, Json, IOUtils, TLC

TraceFile == IOEnv.VERIF_TRACE
Trace == ndJsonDeserialize(TraceFile)

VARIABLES tl,     \* next line to consume
          tobjs,  \* handle -> last known value (sequence of value strings)
          tbad    \* indices of unexplained events (with a reason)

trvars == <<tl, tobjs, tbad>>

ObjOf(ver, s) == [m \in MetricSet(ver) |-> s[Pos(ver, m)]]
SeqOf(ver, o) == [k \in 1..Len(Order(ver)) |-> o[Order(ver)[k]]]
ErrJ(e) == [kind |-> e.kind, abv |-> e.abv]

(* expected tenths of a scoring method; a set (v2 ties) *)
ScoreSet(ver, o, m) ==
  CASE ver = "4.0" -> {Score40(o)}
    [] ver \in {"3.0", "3.1"} /\ m = "base" -> {Base3(o)}
    [] ver \in {"3.0", "3.1"} /\ m = "temporal" -> {Temporal3(o)}
    [] ver \in {"3.0", "3.1"} /\ m = "environmental" -> {Env3(ver, o)}
    [] ver = "2.0" /\ m = "base" -> BaseSet2(o)
    [] ver = "2.0" /\ m = "temporal" -> TemporalSet2(o)
    [] ver = "2.0" /\ m = "environmental" -> EnvSet2(o)

(* a logged receiver that is not an object of the specification at all (some Get of the real object *)
(* returned a string that is not a value of the metric): nothing can be computed from it           *)
BadObj(ver, s) ==
  /\ s # <<>>
  /\ \/ Len(s) # Len(Order(ver))
     \/ \E k \in 1..Len(s) : s[k] \notin Values(ver, Order(ver)[k])

(* why event e is not a behaviour of the specification ("" when it is) *)
Why(e) ==
  CASE e.pan # "" -> "the call panicked"
    [] e.op \in {"set", "get", "vector", "score", "nomen"} /\ BadObj(e.ver, e.before) ->
         "receiver holds a value that is not a value of its metric"
    [] e.op = "parse" ->
         LET r == ParseResult(e.ver, e.b)
             wf == WF(e.ver, e.b)
         IN  IF r.res.ok # wf THEN "SPEC: automaton and grammar disagree"
             ELSE IF e.ok # wf THEN "accept/reject differs from the grammar"
             ELSE IF wf /\ e.after # SeqOf(e.ver, Meaning(e.ver, e.b)) THEN "parsed object differs from the vector text"
             ELSE ""
    [] e.op = "set" ->
         LET r == SetB(e.ver, ObjOf(e.ver, e.before), e.a, e.v)
         IN  IF (e.err.kind = "none") # r.ok THEN "Set accepts/refuses differently"
             ELSE IF ~r.ok /\ ErrJ(e.err) # r.err THEN "Set error value differs"
             ELSE IF e.after # SeqOf(e.ver, r.obj) THEN "object after Set differs"
             ELSE ""
    [] e.op = "get" ->
         LET r == GetB(e.ver, ObjOf(e.ver, e.before), e.a)
         IN  IF (e.err.kind = "none") # r.ok THEN "Get accepts/refuses differently"
             ELSE IF r.ok /\ e.val # r.val THEN "Get value differs"
             ELSE IF ~r.ok /\ ErrJ(e.err) # r.err THEN "Get error value differs"
             ELSE IF e.after # e.before THEN "Get changed the object"
             ELSE ""
    [] e.op = "vector" ->
         IF e.out # VectorOf(e.ver, ObjOf(e.ver, e.before)) THEN "Vector() is not the canonical string"
         ELSE IF e.after # e.before THEN "Vector() changed the object"
         ELSE ""
    [] e.op = "score" ->
         IF e.tenths \notin ScoreSet(e.ver, ObjOf(e.ver, e.before), e.m) THEN "score differs from the specification"
         ELSE IF e.after # e.before THEN "scoring changed the object"
         ELSE ""
    [] e.op = "rating" ->
         IF e.r # RatingOf(e.x) THEN "rating differs from the scale" ELSE ""
    [] e.op = "nomen" ->
         IF e.r # Nomenclature(ObjOf("4.0", e.before)) THEN "nomenclature differs" ELSE ""
    [] e.op = "copy" -> IF e.after # e.before THEN "copy differs from the original" ELSE ""
    [] OTHER -> "unknown op"

Known(h) == h \in DOMAIN tobjs
(* continuity: the receiver must hold what its previous event left *)
Continuity(e) == (e.before # <<>> /\ e.op # "copy" /\ Known(e.h)) => tobjs[e.h] = e.before

TraceInit == tl = 1 /\ tobjs = <<>> /\ tbad = <<>>

TraceNext ==
  /\ tl <= Len(Trace)
  /\ LET e == Trace[tl]
         w == Why(e)
         why == IF w # "" THEN w ELSE IF ~Continuity(e) THEN "object changed between two of its own calls" ELSE ""
     IN  /\ tbad' = IF why = "" THEN tbad ELSE Append(tbad, [line |-> tl, why |-> why])
         /\ tobjs' = IF e.after # <<>> THEN (e.h :> e.after) @@ tobjs ELSE tobjs
  /\ tl' = tl + 1

TraceSpec == TraceInit /\ [][TraceNext]_trvars

(* acceptance *)
Consumed == tl = Len(Trace) + 1
TraceAccepted == TLCGet("stats").diameter = Len(Trace) + 1
Report == Consumed => PrintT("@X" \o ToJson([events |-> Len(Trace), bad |-> tbad]))
=============================================================================
