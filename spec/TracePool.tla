------------------------------ MODULE TracePool ------------------------------
(***************************************************************************)
(* M3 for the pooled split buffer: the hook events RECORDED while the      *)
(* schedules of MC_Pool were forced on the real v2.0 ParseVector are       *)
(* validated against the Pool discipline, event by event.  A run is one    *)
(* schedule ("reset" starts it).  Events of goroutine g:                   *)
(*   get(buf)          - allowed only on a buffer no running call owns;    *)
(*   split(buf, vec)   - by the owner; slots 1..n := Split14(vec);         *)
(*   read(buf, elem)   - by the owner, k <= n, and elem must be what slot k *)
(*                       of THAT buffer holds in the model (a slot         *)
(*                       overwritten by another call, or a stale slot,     *)
(*                       shows here); feeds the parser automaton;          *)
(*   put(buf)          - by the owner; ownership ends;                     *)
(*   ret(ok, obj)      - the call's result must be the automaton's.        *)
(* Unexplained events are collected (line, reason) and printed.            *)
(***************************************************************************)
EXTENDS ParserFns, Json, IOUtils, TLC

TraceFile == IOEnv.VERIF_TRACE
Trace == ndJsonDeserialize(TraceFile)

VARIABLES tl,      \* next line
          powner,  \* buffer -> owning goroutine (absent = free)
          pslots,  \* buffer -> slot contents known to the model
          pcall,   \* goroutine -> [buf, n, k, st, vec]
          tbad

tpvars == <<tl, powner, pslots, pcall, tbad>>

C20(b) == [ver |-> "2.0", b |-> b]
NoCall == [buf |-> 0, n |-> 0, k |-> 1, st |-> PInit("2.0", "elem"), vec |-> <<>>]
Owned(b) == b \in DOMAIN powner
Mine(g, b) == Owned(b) /\ powner[b] = g
CallOf(g) == IF g \in DOMAIN pcall THEN pcall[g] ELSE NoCall

Why(e) ==
  CASE e.ev = "reset" -> ""
    [] e.ev = "get" -> IF Owned(e.buf) THEN "buffer handed out while another call owns it" ELSE ""
    [] e.ev = "split" -> IF ~Mine(e.g, e.buf) THEN "split on a buffer the call does not own" ELSE ""
    [] e.ev = "read" ->
         LET c == CallOf(e.g)
         IN  IF ~Mine(e.g, e.buf) THEN "read on a buffer the call does not own"
             ELSE IF c.k > c.n THEN "read beyond the parts of this call"
             ELSE IF e.buf \notin DOMAIN pslots \/ pslots[e.buf][c.k] # e.s THEN "element read is not what this call wrote into the slot"
             ELSE ""
    [] e.ev = "put" -> IF ~Mine(e.g, e.buf) THEN "put of a buffer the call does not own" ELSE ""
    [] e.ev = "ret" ->
         \* the call's result is the sequential specification's on its own input alone
         LET full == ParseResult("2.0", e.s)
         IN  IF e.ok # full.res.ok THEN "accept/reject differs from the sequential specification"
             ELSE IF e.ok /\ e.obj # [k \in 1..Len(Order20) |-> full.obj[Order20[k]]] THEN "object differs from the sequential specification"
             ELSE ""
    [] OTHER -> "unknown event"

TPInit == tl = 1 /\ powner = <<>> /\ pslots = <<>> /\ pcall = <<>> /\ tbad = <<>>

TPNext ==
  /\ tl <= Len(Trace)
  /\ LET e == Trace[tl]
         w == Why(e)
         c == CallOf(e.g)
     IN  /\ tbad' = IF w = "" THEN tbad ELSE Append(tbad, [line |-> tl, why |-> w])
         /\ CASE e.ev = "reset" -> powner' = <<>> /\ pcall' = <<>> /\ UNCHANGED pslots
              [] e.ev = "get" -> /\ powner' = (e.buf :> e.g) @@ powner
                                 /\ pcall' = (e.g :> [NoCall EXCEPT !.buf = e.buf]) @@ pcall
                                 /\ UNCHANGED pslots
              [] e.ev = "split" ->
                   LET parts == Split14(e.s)
                       old == IF e.buf \in DOMAIN pslots THEN pslots[e.buf] ELSE [i \in 1..14 |-> <<>>]
                   IN  /\ pslots' = (e.buf :> [i \in 1..14 |-> IF i <= Len(parts) THEN parts[i] ELSE old[i]]) @@ pslots
                       /\ pcall' = (e.g :> [c EXCEPT !.n = Len(parts), !.k = 1, !.vec = e.s]) @@ pcall
                       /\ UNCHANGED powner
              [] e.ev = "read" ->
                   /\ pcall' = (e.g :> [c EXCEPT !.k = c.k + 1,
                                          !.st = IF c.st.pc = "done" THEN c.st
                                                 ELSE Elem20F(C20(c.vec), [c.st EXCEPT !.parts = <<e.s>>])]) @@ pcall
                   /\ UNCHANGED <<powner, pslots>>
              [] e.ev = "put" -> /\ powner' = [b \in DOMAIN powner \ {e.buf} |-> powner[b]]
                                 /\ UNCHANGED <<pslots, pcall>>
              [] OTHER -> UNCHANGED <<powner, pslots, pcall>>
  /\ tl' = tl + 1

TPSpec == TPInit /\ [][TPNext]_tpvars
TPAccepted == TLCGet("stats").diameter = Len(Trace) + 1
TPReport == (tl = Len(Trace) + 1) => PrintT("@X" \o ToJson([events |-> Len(Trace), bad |-> tbad]))
=============================================================================
