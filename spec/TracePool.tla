------------------------------ MODULE TracePool ------------------------------
(***************************************************************************)
(* M3 for the pooled split buffer: the hook events RECORDED while the      *)
(* schedules of MC_Pool were forced on the real v2.0 ParseVector are       *)
(* validated against the Pool discipline, event by event.  A run is one    *)
(* schedule ("reset" starts it).  Events of goroutine g:                   *)
(*   get(buf)          - allowed only on a buffer no running call owns;    *)
(*   split(buf, vec)   - by the owner; the call's vector is now known;      *)
(*   read(buf, elem)   - by the owner, and elem must be a piece of the      *)
(*                       call's OWN vector (a slot overwritten by another  *)
(*                       call, or a stale slot, shows here) - how the      *)
(*                       vector is cut and in which order the pieces are   *)
(*                       read is left to the implementation;               *)
(*   put(buf)          - by the owner; ownership ends;                     *)
(*   ret(ok, obj)      - the call's result must be the automaton's.        *)
(* Unexplained events are collected (line, reason) and printed.            *)
(***************************************************************************)
EXTENDS ParserFns, Json, IOUtils, TLC

TraceFile == IOEnv.VERIF_TRACE
Trace == ndJsonDeserialize(TraceFile)

VARIABLES tl,      \* next line
          powner,  \* buffer -> owning goroutine (absent = free)
          pslots,  \* buffer -> slot contents known to the model
          pcall,   \* goroutine -> [buf, n, k, st, vec]
          tbad

tpvars == <<tl, powner, pslots, pcall, tbad>>

C20(b) == [ver |-> "2.0", b |-> b]
NoCall == [buf |-> 0, n |-> 0, k |-> 1, st |-> PInit("2.0", "elem"), vec |-> <<>>]
Owned(b) == b \in DOMAIN powner
Mine(g, b) == Owned(b) /\ powner[b] = g
CallOf(g) == IF g \in DOMAIN pcall THEN pcall[g] ELSE NoCall

(* the pieces of a vector a split can legitimately hand to the loop: its "/"-separated parts and its    *)
(* tails that start at a part boundary (the code keeps "the rest" in the last slot).  HOW the call cuts  *)
(* its vector and in which order it reads the pieces is the implementation's business (a refactor may   *)
(* change both); what the discipline forbids is reading a piece that is NOT of this call's own vector   *)
(* - stale contents of the pooled buffer left by another call.                                          *)
PiecesOf(vec) ==
  LET P == <<0>> \o SepPos(vec, SLASH) \o <<Len(vec) + 1>>
  IN  {SubSeq(vec, P[p[1]] + 1, P[p[2]] - 1) : p \in {q \in (1..(Len(P) - 1)) \X (2..Len(P)) : q[1] < q[2]}}

Why(e) ==
  CASE e.ev = "reset" -> ""
    [] e.ev = "get" -> IF Owned(e.buf) THEN "buffer handed out while another call owns it" ELSE ""
    [] e.ev = "split" -> IF ~Mine(e.g, e.buf) THEN "split on a buffer the call does not own" ELSE ""
    [] e.ev = "read" ->
         LET c == CallOf(e.g)
         IN  IF ~Mine(e.g, e.buf) THEN "read on a buffer the call does not own"
             ELSE IF e.s \notin PiecesOf(c.vec) THEN "element read is not a piece of this call's own vector (stale buffer contents)"
             ELSE ""
    [] e.ev = "put" -> IF ~Mine(e.g, e.buf) THEN "put of a buffer the call does not own" ELSE ""
    [] e.ev = "ret" ->
         \* the call's result is the sequential specification's on its own input alone
         LET full == ParseResult("2.0", e.s)
         IN  IF e.ok # full.res.ok THEN "accept/reject differs from the sequential specification"
             ELSE IF e.ok /\ e.obj # [k \in 1..Len(Order20) |-> full.obj[Order20[k]]] THEN "object differs from the sequential specification"
             ELSE ""
    [] OTHER -> "unknown event"

TPInit == tl = 1 /\ powner = <<>> /\ pslots = <<>> /\ pcall = <<>> /\ tbad = <<>>

TPNext ==
  /\ tl <= Len(Trace)
  /\ LET e == Trace[tl]
         w == Why(e)
         c == CallOf(e.g)
     IN  /\ tbad' = IF w = "" THEN tbad ELSE Append(tbad, [line |-> tl, why |-> w])
         /\ CASE e.ev = "reset" -> powner' = <<>> /\ pcall' = <<>> /\ UNCHANGED pslots
              [] e.ev = "get" -> /\ powner' = (e.buf :> e.g) @@ powner
                                 /\ pcall' = (e.g :> [NoCall EXCEPT !.buf = e.buf]) @@ pcall
                                 /\ UNCHANGED pslots
              [] e.ev = "split" ->
                   LET parts == Split14(e.s)
                       old == IF e.buf \in DOMAIN pslots THEN pslots[e.buf] ELSE [i \in 1..14 |-> <<>>]
                   IN  /\ pslots' = (e.buf :> [i \in 1..14 |-> IF i <= Len(parts) THEN parts[i] ELSE old[i]]) @@ pslots
                       /\ pcall' = (e.g :> [c EXCEPT !.n = Len(parts), !.k = 1, !.vec = e.s]) @@ pcall
                       /\ UNCHANGED powner
              [] e.ev = "read" ->
                   /\ pcall' = (e.g :> [c EXCEPT !.k = c.k + 1,
                                          !.st = IF c.st.pc = "done" THEN c.st
                                                 ELSE Elem20F(C20(c.vec), [c.st EXCEPT !.parts = <<e.s>>])]) @@ pcall
                   /\ UNCHANGED <<powner, pslots>>
              [] e.ev = "put" -> /\ powner' = [b \in DOMAIN powner \ {e.buf} |-> powner[b]]
                                 /\ UNCHANGED <<pslots, pcall>>
              [] OTHER -> UNCHANGED <<powner, pslots, pcall>>
  /\ tl' = tl + 1

TPSpec == TPInit /\ [][TPNext]_tpvars
TPAccepted == TLCGet("stats").diameter = Len(Trace) + 1
TPReport == (tl = Len(Trace) + 1) => PrintT("@X" \o ToJson([events |-> Len(Trace), bad |-> tbad]))
=============================================================================
