------------------------------- MODULE Vector -------------------------------
(***************************************************************************)
(* Canonical serialisation of an object (C02, C08, C13) and its length     *)
(* (the mechanism behind the one-allocation budget of C17).                *)
(***************************************************************************)
EXTENDS Grammar

ElemBytes(m, v) == SB[m] \o <<COLON>> \o SB[v]

(* metrics written by Vector(): specification order; v3/v4 drop every        *)
(* X-valued optional metric; v2 writes a temporal / environmental group in   *)
(* full as soon as one of its metrics is defined, else not at all            *)
Written(ver, o) ==
  IF ver = "2.0"
  THEN LET grp(g) == IF \E i \in 1..Len(g) : o[g[i]] # "ND" THEN g ELSE <<>>
       IN  Base20 \o grp(Temp20) \o grp(Env20)
  ELSE SelectSeq(Order(ver), LAMBDA m : m \in Mandatory(ver) \/ o[m] # "X")

ElemSeq(ver, o) == LET w == Written(ver, o) IN Mat([k \in 1..Len(w) |-> ElemBytes(w[k], o[w[k]])])

VectorOf(ver, o) ==
  CASE ver = "2.0" -> Join(ElemSeq(ver, o), SLASH)
    [] ver \in {"3.0", "3.1"} -> SB[Header(ver)] \o Join(ElemSeq(ver, o), SLASH)
    [] ver = "4.0" -> SB[Header(ver)] \o JoinLead(ElemSeq(ver, o), SLASH)

(* length computed without building the string: header + per written metric  *)
(* (abbreviation + colon + value) + separators                                *)
RECURSIVE SumSeq(_)
SumSeq(s) == IF s = <<>> THEN 0 ELSE s[1] + SumSeq(Tail(s))
LenVec(ver, o) ==
  LET w == Written(ver, o)
      per == Mat([k \in 1..Len(w) |-> Len(SB[w[k]]) + 1 + Len(SB[o[w[k]]])])
      seps == IF ver = "4.0" THEN Len(w) ELSE Len(w) - 1
  IN  Len(SB[Header(ver)]) + SumSeq(per) + seps

(* canonical spelling of an accepted string (C08) *)
Canon(ver, b) == VectorOf(ver, Meaning(ver, b))
=============================================================================
