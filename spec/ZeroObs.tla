------------------------------ MODULE ZeroObs ------------------------------
(***************************************************************************)
(* What Go's zero values CVSS20{}, CVSS30{}, CVSS31{}, CVSS40{} denote,    *)
(* as OBSERVED through Get on the tree under test.  The driver regenerates *)
(* this module in its scratch copy of the specification before every run   *)
(* (harness mode "zero"); this committed copy only keeps the specification *)
(* self-contained.  The model asserts nothing about it except that it is a *)
(* well-formed object (C09).                                               *)
(***************************************************************************)
ZeroObs(ver) ==
  CASE ver = "2.0" -> [AV |-> "L", AC |-> "L", Au |-> "M", C |-> "N", I |-> "N", A |-> "N",
                       E |-> "ND", RL |-> "ND", RC |-> "ND", CDP |-> "ND", TD |-> "ND",
                       CR |-> "ND", IR |-> "ND", AR |-> "ND"]
    [] ver \in {"3.0", "3.1"} ->
                      [AV |-> "N", AC |-> "L", PR |-> "N", UI |-> "N", S |-> "U", C |-> "H",
                       I |-> "H", A |-> "H", E |-> "X", RL |-> "X", RC |-> "X", CR |-> "X",
                       IR |-> "X", AR |-> "X", MAV |-> "X", MAC |-> "X", MPR |-> "X",
                       MUI |-> "X", MS |-> "X", MC |-> "X", MI |-> "X", MA |-> "X"]
    [] ver = "4.0" -> [AV |-> "N", AC |-> "H", AT |-> "N", PR |-> "H", UI |-> "N", VC |-> "H",
                       VI |-> "H", VA |-> "H", SC |-> "H", SI |-> "H", SA |-> "H", E |-> "X",
                       CR |-> "X", IR |-> "X", AR |-> "X", MAV |-> "X", MAC |-> "X",
                       MAT |-> "X", MPR |-> "X", MUI |-> "X", MVC |-> "X", MVI |-> "X",
                       MVA |-> "X", MSC |-> "X", MSI |-> "X", MSA |-> "X", S |-> "X",
                       AU |-> "X", R |-> "X", V |-> "X", RE |-> "X", U |-> "X"]
=============================================================================
