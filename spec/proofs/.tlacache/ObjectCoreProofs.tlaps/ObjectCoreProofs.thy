(* automatically generated -- do not edit manually *)
theory ObjectCoreProofs imports Constant Zenon begin
ML_command \<open> writeln ("*** TLAPS PARSED\n"); \<close>
consts
  "isReal" :: c
  "isa_slas_a" :: "[c,c] => c"
  "isa_bksl_diva" :: "[c,c] => c"
  "isa_perc_a" :: "[c,c] => c"
  "isa_peri_peri_a" :: "[c,c] => c"
  "isInfinity" :: c
  "isa_lbrk_rbrk_a" :: "[c] => c"
  "isa_less_more_a" :: "[c] => c"

end
