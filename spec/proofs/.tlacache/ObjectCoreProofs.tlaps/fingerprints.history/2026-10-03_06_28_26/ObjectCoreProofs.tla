-------------------------- MODULE ObjectCoreProofs --------------------------
(***************************************************************************)
(* TLAPS proofs about ObjectCore (run: tlapm -I .. ObjectCoreProofs.tla).   *)
(* For EVERY object o (a function on Metrics), abbreviation and value:      *)
(*   Frame        a successful Set changes its metric and nothing else, a   *)
(*                failed Set changes nothing (C07 clauses 1, 2);            *)
(*   GetAfterSet  Get of the metric just set returns the value set;         *)
(*   Commute      successful Sets of two DIFFERENT metrics commute;         *)
(*   LastWins     of two successful Sets of the same metric the second      *)
(*                one decides                                               *)
(* - the last two are why "two objects holding the same metric values are   *)
(* equal whatever sequence of calls produced them" (C07 clause 3) holds on  *)
(* the specification: the object after a history is a function of the last  *)
(* successful Set per metric only.                                          *)
(***************************************************************************)
EXTENDS ObjectCore, TLAPS

ASSUME NoneNotMetric == None \notin Metrics
ASSUME MetricOfType == \A a : MetricOfF(a) \in Metrics \cup {None}

THEOREM Frame ==
  ASSUME NEW V, NEW o \in [Metrics -> V], NEW a, NEW v
  PROVE  CFrame(o, a, v)
  BY MetricOfType, NoneNotMetric DEF CFrame, CSet

THEOREM GetAfterSet ==
  ASSUME NEW V, NEW o \in [Metrics -> V], NEW a, NEW v, CSet(o, a, v).ok
  PROVE  /\ CGet(CSet(o, a, v).obj, a).ok
         /\ CGet(CSet(o, a, v).obj, a).val = ValueOfF(MetricOfF(a), v)
  BY MetricOfType, NoneNotMetric DEF CSet, CGet

THEOREM Commute ==
  ASSUME NEW V, NEW o \in [Metrics -> V], NEW a1, NEW v1, NEW a2, NEW v2,
         MetricOfF(a1) # MetricOfF(a2),
         CSet(o, a1, v1).ok, CSet(o, a2, v2).ok
  PROVE  CSet(CSet(o, a1, v1).obj, a2, v2).obj = CSet(CSet(o, a2, v2).obj, a1, v1).obj
  BY MetricOfType, NoneNotMetric DEF CSet

THEOREM LastWins ==
  ASSUME NEW V, NEW o \in [Metrics -> V], NEW a1, NEW v1, NEW a2, NEW v2,
         MetricOfF(a1) = MetricOfF(a2),
         CSet(o, a1, v1).ok, CSet(o, a2, v2).ok
  PROVE  CSet(CSet(o, a1, v1).obj, a2, v2).obj = CSet(o, a2, v2).obj
  BY MetricOfType, NoneNotMetric DEF CSet

(* a failed Set is the identity, so it can be dropped from any history *)
THEOREM FailedIsIdentity ==
  ASSUME NEW o, NEW a, NEW v, ~CSet(o, a, v).ok
  PROVE  CSet(o, a, v).obj = o
  BY DEF CSet
=============================================================================
